"""C05: every coroutine callback that is started is awaited to completion before the next phase begins (guards)."""
import sys, asyncio; sys.path.insert(0, sys.argv[1] if len(sys.argv) > 1 else "/repo")
from statemachine import StateMachine, State
log = []
class M(StateMachine):
    a = State(initial=True); b = State(); c = State(final=True)
    go = a.to(b, cond=["g1", "g2"]) | a.to(c)
    async def g1(self):
        log.append("g1"); return False
    async def g2(self):
        log.append("g2-begin"); [await asyncio.sleep(0) for _ in range(12)]; log.append("g2-end"); return True
    async def on_enter_c(self):
        log.append("enter-c-begin"); await asyncio.sleep(0); await asyncio.sleep(0); log.append("enter-c-end")
async def main():
    sm = M(); await sm.activate_initial_state(); await sm.go()
    for _ in range(5): await asyncio.sleep(0)
asyncio.run(main())
if "g2-begin" in log:
    assert log.index("g2-end") < log.index("enter-c-begin"), log
