"""C06: once all senders returned no event is left unprocessed (threads, one pre-emption)."""
import sys; sys.path.insert(0, sys.argv[1] if len(sys.argv) > 1 else "/repo")
import threading, warnings, os
warnings.simplefilter("ignore")
from statemachine import StateMachine, State
import statemachine
PKG = os.path.dirname(os.path.abspath(statemachine.__file__)) + os.sep

class Sched:
    """Only one worker runs at a time. At every traced line in TARGET files the running worker asks
    the scheduler whether to switch. schedule: dict step_index -> worker to switch to."""
    def __init__(self, nworkers, preempt_at):
        self.sems = [threading.Semaphore(0) for _ in range(nworkers)]
        self.alive = [True]*nworkers
        self.current = 0
        self.step = 0
        self.preempt_at = preempt_at   # {step: target}
        self.trace_log = []
    def tracer(self, wid):
        def local(frame, event, arg):
            if event == "line":
                self.point(wid, f"{os.path.basename(frame.f_code.co_filename)}:{frame.f_lineno}")
            return local
        def glob(frame, event, arg):
            if event == "call" and frame.f_code.co_filename.startswith(PKG):
                return local
            return None
        return glob
    def point(self, wid, where):
        self.step += 1
        self.trace_log.append((self.step, wid, where))
        tgt = self.preempt_at.get(self.step)
        if tgt is not None and tgt != wid and self.alive[tgt]:
            self.current = tgt
            self.sems[tgt].release()
            self.sems[wid].acquire()
    def run(self, bodies):
        threads = []
        def worker(wid, body):
            self.sems[wid].acquire()
            sys.settrace(self.tracer(wid))
            try:
                body()
            finally:
                sys.settrace(None)
                self.alive[wid] = False
                # hand over to any alive worker
                for j in range(len(bodies)):
                    if self.alive[j]:
                        self.current = j
                        self.sems[j].release()
                        break
        for i, b in enumerate(bodies):
            t = threading.Thread(target=worker, args=(i, b)); t.start(); threads.append(t)
        self.sems[0].release()
        for t in threads: t.join(10)
        assert not any(t.is_alive() for t in threads), "deadlock"

class M(StateMachine):
    a = State(initial=True)
    tick = a.to.itself()
    def __init__(self): self.log = []; super().__init__()
    def on_tick(self, who): self.log.append(who)

# first: count steps of a single run
sm = M()
s = Sched(2, {})
s.run([lambda: sm.tick(who=0), lambda: sm.tick(who=1)])
nsteps = s.step
print("steps:", nsteps, "log", sm.log)
stranded = []
for k in range(1, nsteps+1):
    for back in [None]:  # (the defect shows with a single pre-emption; switch-backs are explored by the C06 check itself)
        sm = M()
        pre = {k: 1}
        if back: pre[back] = 0
        s = Sched(2, pre)
        s.run([lambda: sm.tick(who=0), lambda: sm.tick(who=1)])
        q = 0
        if q or sorted(sm.log) != [0, 1]:
            stranded.append((k, back, q, sm.log, [x for x in s.trace_log if x[0] in (k-1, k)]))
print("violations:", len(stranded))
for x in stranded[:5]: print(x)
assert not stranded, stranded[:2]
