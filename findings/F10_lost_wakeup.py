"""C06: once all senders returned no event is left unprocessed (threads, one pre-emption at any line of the package)."""
import os, sys, warnings
sys.path.insert(0, sys.argv[1] if len(sys.argv) > 1 else "/repo")
sys.path.insert(1, os.path.dirname(os.path.dirname(os.path.abspath(__file__))))   # /verif, for the cooperative scheduler
warnings.simplefilter("ignore")
from statemachine import StateMachine, State
from vcheck.sched import ThreadSched

class M(StateMachine):
    a = State(initial=True)
    tick = a.to.itself()
    def __init__(self): self.log = []; super().__init__()
    def on_tick(self, who): self.log.append(who)

def run(schedule):
    sm = M()
    s = ThreadSched(2, schedule)
    s.run([lambda: sm.tick(who=0), lambda: sm.tick(who=1)])
    return s, sm

s, sm = run([])
nsteps = s.step
stranded = []
for k in range(1, nsteps + 1):
    s, sm = run([(k, 1)])
    if sorted(sm.log) != [0, 1]:
        stranded.append((k, sm.log))
print("steps:", nsteps, "violations:", len(stranded))
assert not stranded, stranded[:3]
