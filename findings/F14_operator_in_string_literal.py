"""C08: an expression evaluates exactly as Python evaluates it - operator spellings inside string literals are data."""
import sys; sys.path.insert(0, sys.argv[1] if len(sys.argv) > 1 else "/repo")
from statemachine import StateMachine, State
for expr, xv, fires in [("x == 'a v b'", "a v b", True), ("x != 'wow!'", "wow!", False), ('x == "2^3"', "2^3", True), ("x == 'a v b' v y", "zz", False), ("!y ^ x == 'v'", "v", True)]:
    class M(StateMachine):
        s1 = State(initial=True); s2 = State(final=True)
        go = s1.to(s2, cond=expr)
        y = False
        x = xv
    sm = M()
    try: sm.go(); fired = True
    except sm.TransitionNotAllowed: fired = False
    assert fired == fires, (expr, xv, fired)
