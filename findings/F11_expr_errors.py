"""C08: unsupported expressions are rejected with InvalidDefinition at instantiation."""
import sys; sys.path.insert(0, sys.argv[1] if len(sys.argv) > 1 else "/repo")
from statemachine import StateMachine, State
from statemachine.exceptions import InvalidDefinition
for expr in ["x + y", "x is y", "x in y", "-x > 0", "x if y else x", "lambda: x", "x.y and x", "f(x) or y"]:
    class M(StateMachine):
        a = State(initial=True); b = State(final=True); go = a.to(b, cond=expr)
        x = 1; y = 2
    try:
        M()
    except InvalidDefinition:
        continue
    except Exception as e:
        raise AssertionError(f"{expr!r}: {type(e).__name__}: {e}")
    raise AssertionError(f"{expr!r} accepted")
