"""C16/C18: defining a subclass never changes the transitions of an existing class (from_.any() re-expansion)."""
import sys, warnings; sys.path.insert(0, sys.argv[1] if len(sys.argv) > 1 else "/repo")
warnings.simplefilter("ignore")
from statemachine import StateMachine, State
from statemachine.contrib.diagram import DotGraphMachine
class Base(StateMachine):
    idle = State(initial=True); busy = State(); done = State(final=True)
    work = idle.to(busy); rest = busy.to(idle)
    finish = done.from_.any()
before = {s.id: len(s.transitions) for s in Base.states}
edges_before = len(DotGraphMachine(Base)().get_edges())
class Sub(Base):
    pass
class Sub2(Sub):
    def on_enter_busy(self): pass
after = {s.id: len(s.transitions) for s in Base.states}
assert after == before, (before, after)
assert len(DotGraphMachine(Base)().get_edges()) == edges_before
assert {s.id: len(s.transitions) for s in Sub2.states} == before
sm = Sub2(); sm.work(); sm.finish(); assert sm.current_state.id == "done"
