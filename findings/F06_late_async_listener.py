"""C12/C17: a coroutine listener attached late is awaited; clone of a machine whose coroutines live on listeners works."""
import sys, copy, gc, warnings; sys.path.insert(0, sys.argv[1] if len(sys.argv) > 1 else "/repo")
from statemachine import StateMachine, State
class M(StateMachine):
    a = State(initial=True); go = a.to.itself()
class L:
    def __init__(self): self.seen = []
    async def after_go(self, x): self.seen.append(x)
with warnings.catch_warnings():
    warnings.simplefilter("error")
    l = L(); sm = M(); sm.add_listener(l); sm.send("go", 1); gc.collect()
    assert l.seen == [1], l.seen
    l2 = L(); sm2 = M(listeners=[l2]); sm2.ref = l2; sm2.send("go", 1)   # sm2.ref: public handle on the listener (copied with the machine)
    c = copy.deepcopy(sm2); c.send("go", 2); gc.collect()
    cl = c.ref
    assert cl.seen == [1, 2] and l2.seen == [1], (cl.seen, l2.seen)
