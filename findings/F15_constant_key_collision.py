"""C08: every cond entry counts - entries that differ only in the type of a constant (1 vs '1') are different guards."""
import sys; sys.path.insert(0, sys.argv[1] if len(sys.argv) > 1 else "/repo")
from statemachine import StateMachine, State
class M(StateMachine):
    s1 = State(initial=True); s2 = State(final=True)
    go = s1.to(s2, cond=["x == 1", "x == '1'"])
    x = 1
sm = M()          # used to raise InvalidDefinition: Did not found name "x == '1'"
try: sm.go(); fired = True
except sm.TransitionNotAllowed: fired = False
assert fired is False   # 1 == '1' is False, the conjunction does not hold
class N(StateMachine):
    s1 = State(initial=True); s2 = State(final=True)
    go = s1.to(s2, cond="x == 1", unless="x == '1'")
    x = 1
n = N(); n.go(); assert n.current_state.id == "s2"
