"""C10/C11: start_value selects the starting state, also when the value is falsy (0)."""
import sys; sys.path.insert(0, sys.argv[1] if len(sys.argv) > 1 else "/repo")
from statemachine import StateMachine, State
class M(StateMachine):
    a = State(initial=True, value=1); b = State(value=0); go = a.to(b); back = b.to(a)
sm = M(start_value=0)
assert sm.current_state.id == "b", sm.current_state.id
