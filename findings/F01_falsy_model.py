"""C10: the model object supplied by the user is the one used (falsy models)."""
import sys; sys.path.insert(0, sys.argv[1] if len(sys.argv) > 1 else "/repo")
from statemachine import StateMachine, State
class M(StateMachine):
    a = State(initial=True); b = State(final=True); go = a.to(b)
class FalsyModel(list):
    pass
m = FalsyModel()
sm = M(model=m)
assert sm.model is m, "falsy model replaced"
sm.go()
assert m.state == "b"
