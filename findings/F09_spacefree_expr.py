"""C08: expressions without optional whitespace are expressions, not names."""
import sys; sys.path.insert(0, sys.argv[1] if len(sys.argv) > 1 else "/repo")
from statemachine import StateMachine, State
for expr, vals, fires in [("x>=1", dict(x=1, y=0), True), ("x^y", dict(x=1, y=0), False), ("(x)", dict(x=1, y=0), True),
                          ("x==2", dict(x=2, y=0), True), ("True", dict(x=0, y=0), True), ("xvy", None, None)]:
    class M(StateMachine):
        a = State(initial=True); b = State(final=True); go = a.to(b, cond=expr)
        x = 0; y = 0
    if vals is None:
        from statemachine.exceptions import InvalidDefinition
        try: M()
        except InvalidDefinition: continue
        raise AssertionError("xvy accepted")
    sm = M(); sm.x = vals["x"]; sm.y = vals["y"]
    try: sm.go(); fired = True
    except sm.TransitionNotAllowed: fired = False
    assert fired == fires, (expr, fired)
