"""C17: a machine whose explicitly named callback lives only on a constructor listener can be deep-copied / pickled."""
import sys, copy, pickle; sys.path.insert(0, sys.argv[1] if len(sys.argv) > 1 else "/repo")
from statemachine import StateMachine, State
class L:
    def __init__(self): self.seen = []
    def announce(self): self.seen.append("enter")
    def charge(self): self.seen.append("charge"); return "ok"
class M(StateMachine):
    a = State(initial=True, enter="announce"); b = State(final=True)
    go = a.to(b, on="charge")
first = L()
sm = M(listeners=[first])
sm.ref = first   # public handle on the listener, copied together with the machine
for clone in (copy.deepcopy(sm), pickle.loads(pickle.dumps(sm))):
    assert clone.go() == "ok"
    l = clone.ref
    assert l.seen == ["enter", "charge"], l.seen
assert sm.go() == "ok"
