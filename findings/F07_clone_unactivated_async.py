"""C17: a clone of a not-yet-activated async machine behaves like the original."""
import sys, copy, pickle, asyncio; sys.path.insert(0, sys.argv[1] if len(sys.argv) > 1 else "/repo")
from statemachine import StateMachine, State
class M(StateMachine):
    a = State(initial=True); b = State(); go = a.to(b); back = b.to(a)
    async def on_go(self): return 1
async def main():
    sm = M()
    for c in (copy.deepcopy(sm), pickle.loads(pickle.dumps(sm))):
        assert await c.send("go") == 1
        assert c.current_state.id == "b"
    assert await sm.send("go") == 1
asyncio.run(main())
