"""C11: resuming over a stored state and re-activating are no-ops, also with rtc=False."""
import sys; sys.path.insert(0, sys.argv[1] if len(sys.argv) > 1 else "/repo")
from statemachine import StateMachine, State
class M(StateMachine):
    a = State(initial=True); b = State(); go = a.to(b); back = b.to(a)
class Mod: pass
m = Mod(); sm = M(m, rtc=False); sm.go()
sm.activate_initial_state()
assert sm.current_state.id == "b"
sm2 = M(m, rtc=False)
assert sm2.current_state.id == "b"
sm2.back()
assert m.state == "a"
