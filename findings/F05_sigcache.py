"""C07/C16: binding depends only on the callback's own signature (same qualname + param names elsewhere)."""
import sys, asyncio, warnings; sys.path.insert(0, sys.argv[1] if len(sys.argv) > 1 else "/repo")
from statemachine import StateMachine, State
seen = []
def make(kind):
    if kind == "pos":
        class L:
            def on_go(self, a, b): seen.append(("pos", a, b))
    elif kind == "kw":
        class L:
            def on_go(self, *, a=None, b=None): seen.append(("kw", a, b))
    else:
        class L:
            async def on_go(self, a, b): seen.append(("async", a, b))
    L.__qualname__ = "L"; L.on_go.__qualname__ = "L.on_go"
    return L()
class M(StateMachine):
    a = State(initial=True); go = a.to.itself()
M(listeners=[make("pos")]).send("go", 1, 2)
M(listeners=[make("kw")]).send("go", 1, 2, a="A")
with warnings.catch_warnings():
    warnings.simplefilter("error")
    M(listeners=[make("async")]).send("go", 3, 4)
    import gc; gc.collect()
assert seen == [("pos", 1, 2), ("kw", "A", None), ("async", 3, 4)], seen
