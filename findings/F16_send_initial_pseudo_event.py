"""C13/C11: the name '__initial__' passed to send() is not a declared event: TransitionNotAllowed, state untouched, no callbacks."""
import sys; sys.path.insert(0, sys.argv[1] if len(sys.argv) > 1 else "/repo")
from statemachine import StateMachine, State
from statemachine.exceptions import TransitionNotAllowed
log = []
class M(StateMachine):
    a = State(initial=True); b = State(); go = a.to(b); back = b.to(a)
    def on_enter_a(self): log.append("enter a")
sm = M(); sm.go(); del log[:]
try:
    sm.send("__initial__")
except TransitionNotAllowed:
    pass
else:
    raise AssertionError(f"send('__initial__') was accepted: state={sm.current_state.id}, log={log}")
assert sm.current_state.id == "b" and log == [], (sm.current_state.id, log)
sm2 = M(allow_event_without_transition=True); sm2.go(); del log[:]
assert sm2.send("__initial__") is None
assert sm2.current_state.id == "b" and log == [], (sm2.current_state.id, log)
