"""C13: a non-event name passed to send never invokes another attribute of the machine."""
import sys; sys.path.insert(0, sys.argv[1] if len(sys.argv) > 1 else "/repo")
from statemachine import StateMachine, State
from statemachine.exceptions import TransitionNotAllowed
class M(StateMachine):
    a = State(initial=True); b = State(); go = a.to(b); back = b.to(a)
    calls = 0
    def helper(self):
        type(self).calls += 1
sm = M(); sm.go()
for name in ["helper", "__init__", "add_listener", "_graph", "bind_events_to", "model", "current_state", "a", "activate_initial_state"]:
    try:
        sm.send(name)
    except TransitionNotAllowed:
        pass
    else:
        raise AssertionError(f"send({name!r}) did not raise TransitionNotAllowed")
    assert sm.current_state.id == "b", (name, sm.current_state.id)
assert M.calls == 0
