"""C07: keyword-only parameter receives its keyword even after surplus positionals."""
import sys; sys.path.insert(0, sys.argv[1] if len(sys.argv) > 1 else "/repo")
from statemachine import StateMachine, State
seen = []
class M(StateMachine):
    a = State(initial=True); go = a.to.itself()
    def on_go(self, x, *, k=None):
        seen.append((x, k))
M().send("go", 1, 2, 3, k="K")
assert seen == [(1, "K")], seen
