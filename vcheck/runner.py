"""Runner: ./check <ID> [--tier quick|thorough] [--replay FILE]

Fans a property out over worker processes (shard seed = VERIF_SEED*1000 + shard), merges counters, keeps the
smallest failing case per root-cause signature, writes replays/<ID>-<sha>.json and evidence/<ID>.json.

Exit protocol: 0 held on everything explored (known findings are printed as KNOWN-FINDING lines);
1 + "VIOLATION property=<id> replay=<path>" for a violation the ledger does not list; 2 harness error."""
from __future__ import annotations

import argparse
import hashlib
import importlib
import json
import multiprocessing as mp
import os
import sys
import time
import traceback
import warnings

VERIF = os.path.dirname(os.path.dirname(os.path.abspath(__file__)))
NSHARDS = int(os.environ.get("VERIF_SHARDS", "16"))


def canon(obj):
    return json.dumps(obj, sort_keys=True, default=repr, separators=(",", ":"))


def sha(obj, n=12):
    return hashlib.sha1(canon(obj).encode()).hexdigest()[:n]


def load_known():
    with open(os.path.join(VERIF, "known_findings.json")) as f:
        data = json.load(f)
    out = {}
    for e in data.get("open", []):
        for sig in e.get("signatures", []):
            out[sig] = e
    return out


def fixed_demos(pid):
    """Regression tier: demo programs of repaired findings that concern this property (exit 0 = property holds)."""
    with open(os.path.join(VERIF, "known_findings.json")) as f:
        data = json.load(f)
    demos = []
    for line in data.get("fixed", []):
        if (f"property={pid} " in line or f"also {pid}" in line) and "demo findings/" in line:
            demos.append(os.path.join(VERIF, "findings", line.split("demo findings/")[1].split()[0].rstrip(";,.")))
    return demos


class Outcome(dict):
    """ok, signature, detail, nontrivial, labels, stats"""


def get_module(pid):
    return importlib.import_module(f"vcheck.props.{pid.lower()}")


def _silence():
    warnings.simplefilter("ignore")
    prev = sys.unraisablehook

    def hook(u):
        # event loops the library creates per driver thread are never closed by it; their __del__ at shutdown is noise
        if "BaseEventLoop.__del__" in repr(getattr(u, "object", "")):
            return
        prev(u)

    sys.unraisablehook = hook
    # sibling coroutines of a failed callback group that fail too are reported by asyncio's logger when they are collected
    # ("Task exception was never retrieved"): expected with injected faults, not a verdict
    import logging

    logging.getLogger("asyncio").setLevel(logging.CRITICAL)


def worker(job):
    pid, tier, seed, shard, nshards = job
    _silence()
    t0 = time.time()
    res = {
        "shard": shard, "evaluations": 0, "nontrivial_hashes": set(), "labels": {}, "stats": {}, "samples": [],
        "failures": {}, "harness_error": None, "extra": {}, "post_failure_calls": 0,
    }
    try:
        mod = get_module(pid)
        from hypothesis import HealthCheck, Phase, given, settings
        from hypothesis import seed as hseed

        n = mod.budget(tier)
        per_shard = max(1, n // nshards) if getattr(mod, "BUDGET_IS_TOTAL", True) else n
        state = {"failed": False}

        def record(case, out):
            res["evaluations"] += 1
            for lab in out.get("labels", ()):
                res["labels"][lab] = res["labels"].get(lab, 0) + 1
            for k, v in out.get("stats", {}).items():
                res["stats"][k] = res["stats"].get(k, 0) + v
            if out.get("nontrivial"):
                res["nontrivial_hashes"].add(sha(case, 16))
                if len(res["samples"]) < 2:
                    res["samples"].append(case)
            if not out["ok"]:
                sig = out["signature"]
                case = out.get("case", case)
                size = len(canon(case))
                cur = res["failures"].get(sig)
                if cur is None or size < cur["size"]:
                    res["failures"][sig] = {"size": size, "case": case, "detail": out["detail"], "signature": sig}

        strat = mod.strategy(tier) if hasattr(mod, "strategy") else None
        if strat is not None and per_shard > 0:

            @hseed(seed * 1000 + shard)
            @settings(
                max_examples=per_shard,
                database=None,
                deadline=None,
                derandomize=False,
                report_multiple_bugs=False,
                phases=[Phase.generate, Phase.shrink],
                suppress_health_check=[HealthCheck.too_slow, HealthCheck.data_too_large, HealthCheck.large_base_example],
                print_blob=False,
            )
            @given(strat)
            def run(case):
                if res["harness_error"] is not None:
                    return  # do not let Hypothesis shrink a harness error
                if state["failed"]:
                    res["post_failure_calls"] += 1
                    if res["post_failure_calls"] > int(os.environ.get("VERIF_SHRINK_CALLS", str(getattr(mod, "SHRINK_CALLS", 150 if tier == "quick" else 1500)))):
                        return  # shrink budget spent: let the shrinker finish quickly
                try:
                    out = mod.run_case(case)
                except Exception as e:
                    if res["harness_error"] is None:
                        res["harness_error"] = "".join(traceback.format_exception(type(e), e, e.__traceback__))[-2500:] + "\ncase: " + canon(case)[:3000]
                    raise
                record(case, out)
                if not out["ok"]:
                    state["failed"] = True
                    raise AssertionError(out["signature"])

            try:
                run()
            except BaseException as e:  # the verdict is what `record` collected, not Hypothesis' report
                if not res["failures"] and res["harness_error"] is None:
                    if isinstance(e, (KeyboardInterrupt, SystemExit)):
                        raise
                    res["harness_error"] = "".join(traceback.format_exception(type(e), e, e.__traceback__))[-3000:]
        fuzz_runs = getattr(mod, "FUZZ_RUNS", {}).get(tier, 0)
        if fuzz_runs and not res["failures"]:
            # coverage-guided sub-engine (atheris/libFuzzer over the same strategy and oracle), one campaign per shard
            import subprocess
            import tempfile

            try:
                import atheris  # noqa: F401

                have = True
            except Exception:
                have = False
            if not have:
                res["extra"]["atheris"] = "not installed (tools/setup.sh installs it from the offline wheelhouse): sub-engine skipped"
            else:
                tmp = tempfile.mkdtemp(prefix=f"fuzz-{pid}-")
                outp = os.path.join(tmp, "out.json")
                try:
                    subprocess.run([sys.executable, "-m", "vcheck.fuzz", pid, str(fuzz_runs), str(seed * 1000 + shard + 1), outp],
                                   capture_output=True, timeout=getattr(mod, "FUZZ_TIMEOUT", 1500))
                    with open(outp) as fh:
                        fz = json.load(fh)
                    res["evaluations"] += fz["executions"]
                    res["nontrivial_hashes"].update(fz["nontrivial_hashes"])
                    res["extra"]["atheris_executions"] = fz["executions"]
                    res["extra"]["atheris_libfuzzer_runs"] = fuzz_runs
                    if fz.get("failure"):
                        f = fz["failure"]
                        res["failures"][f["signature"]] = {"size": len(canon(f["case"])), "case": f["case"], "detail": "[atheris] " + f["detail"], "signature": f["signature"]}
                except Exception as e:
                    res["extra"]["atheris"] = f"campaign failed to run: {type(e).__name__}: {e}"
                finally:
                    import shutil

                    shutil.rmtree(tmp, ignore_errors=True)
        if hasattr(mod, "extra"):
            for case, out in mod.extra(tier, seed, shard, nshards):
                if case is None:
                    for k, v in out.items():
                        res["extra"][k] = res["extra"].get(k, 0) + v if isinstance(v, (int, float)) else v
                    continue
                record(case, out)
    except BaseException as e:
        res["harness_error"] = "".join(traceback.format_exception(type(e), e, e.__traceback__))[-3000:]
    res["wall"] = time.time() - t0
    return res


def replay(pid, path):
    _silence()
    mod = get_module(pid)
    with open(path) as f:
        data = json.load(f)
    case = data["case"] if isinstance(data, dict) and "case" in data and "property" in data else data
    out = mod.run_case(case)
    if out["ok"]:
        print(f"replay {path}: property {pid} holds on this case")
        return 0
    print(f"replay {path}: {out['signature']}: {out['detail']}")
    known = load_known()
    if out["signature"] in known:
        print(f"KNOWN-FINDING: property={pid} {known[out['signature']]['what']}")
        return 0
    print(f"VIOLATION property={pid} replay={path}")
    return 1


def main(argv=None):
    ap = argparse.ArgumentParser()
    ap.add_argument("pid")
    ap.add_argument("--tier", default=os.environ.get("VERIF_TIER", "quick"), choices=["quick", "thorough"])
    ap.add_argument("--replay")
    ap.add_argument("--shards", type=int, default=NSHARDS)
    args = ap.parse_args(argv)
    pid = args.pid.upper()
    try:
        seed = int(os.environ.get("VERIF_SEED", "1") or "1")
    except ValueError:
        seed = 1
    if args.replay:
        try:
            return replay(pid, args.replay)
        except Exception:
            traceback.print_exc()
            return 2
    t0 = time.time()
    try:
        mod = get_module(pid)
    except Exception:
        traceback.print_exc()
        print(f"HARNESS-ERROR property={pid} cannot import the check or the library")
        return 2
    nshards = args.shards
    jobs = [(pid, args.tier, seed, s, nshards) for s in range(nshards)]
    ctx = mp.get_context("fork")
    with ctx.Pool(min(nshards, os.cpu_count() or 1)) as pool:
        results = pool.map(worker, jobs, chunksize=1)
    known = load_known()
    # probes of recorded findings (known or repaired) and regression demos of repaired ones
    from . import probes as _probes

    probe_rows = []
    for kid, fn in _probes.for_property(pid):
        try:
            with warnings.catch_warnings():
                warnings.simplefilter("ignore")
                detail = fn()
        except Exception as e:
            detail = f"probe raised {type(e).__name__}: {e}"
        probe_rows.append((kid, detail))
        if detail is not None:
            sig = f"{pid}:known-{kid}"
            results[0]["failures"][sig] = {"size": 0, "case": {"probe": kid, "see": "vcheck/probes.py"}, "detail": detail, "signature": sig}
    demo_rows = []
    import subprocess

    repo = os.environ.get("VERIF_REPO", "/repo")
    for demo in fixed_demos(pid):
        try:
            cp = subprocess.run([sys.executable, demo, repo], capture_output=True, text=True, timeout=120)
            ok = cp.returncode == 0
            tail = (cp.stderr or cp.stdout).strip().splitlines()[-1:] if not ok else []
        except subprocess.TimeoutExpired:
            ok, tail = False, ["timeout"]
        demo_rows.append((os.path.basename(demo), ok))
        if not ok:
            sig = f"{pid}:regression-{os.path.basename(demo)}"
            results[0]["failures"][sig] = {"size": 0, "case": {"demo": demo, "run": f"python {demo} {repo}"}, "detail": f"repaired finding is back: {demo} fails: {tail}", "signature": sig}
    evaluations = sum(r["evaluations"] for r in results)
    hashes = set().union(*(r["nontrivial_hashes"] for r in results))
    labels, stats, extra = {}, {}, {}
    for r in results:
        for k, v in r["labels"].items():
            labels[k] = labels.get(k, 0) + v
        for k, v in r["stats"].items():
            stats[k] = stats.get(k, 0) + v
        for k, v in r["extra"].items():
            extra[k] = extra.get(k, 0) + v if isinstance(v, (int, float)) and not isinstance(v, bool) else v
    samples = [s for r in results for s in r["samples"]][:3]
    failures, seen_in = {}, {}
    for r in results:
        for sig, f in r["failures"].items():
            seen_in[sig] = seen_in.get(sig, 0) + 1
            if sig not in failures or f["size"] < failures[sig]["size"]:
                failures[sig] = f
    herr = [r["harness_error"] for r in results if r["harness_error"]]
    rc = 0
    violations = 0
    known_hits = []
    replay_dir = os.environ.get("VERIF_REPLAY_DIR") or os.path.join(VERIF, "replays")
    os.makedirs(replay_dir, exist_ok=True)
    for sig, f in sorted(failures.items()):
        if sig in known:
            known_hits.append(sig)
            print(f"KNOWN-FINDING: property={pid} {known[sig]['what']}")
            continue
        violations += 1
        path = os.path.join(replay_dir, f"{pid}-{sha(f['case'])}.json")
        with open(path, "w") as fh:
            json.dump({"property": pid, "signature": sig, "detail": f["detail"], "case": f["case"]}, fh, indent=1, default=repr)
        print(f"{sig} (in {seen_in[sig]}/{nshards} shards): {f['detail'][:600]}")
        print(f"VIOLATION property={pid} replay={path}")
        rc = 1
    if herr and rc == 0:
        print(herr[0])
        print(f"HARNESS-ERROR property={pid} ({len(herr)} shard(s))")
        rc = 2
    wall = time.time() - t0
    cov = {
        "evaluations": evaluations,
        "distinct_nontrivial": len(hashes),
        "rule": getattr(mod, "RULE", ""),
        "samples": samples if samples else [{"note": "no non-trivial sample recorded"}],
        "class_histogram": dict(sorted(labels.items())),
        "counters": dict(sorted(stats.items())),
        "shards": nshards,
        "exhaustive": bool(extra.pop("exhaustive", False)) if "exhaustive" in extra else False,
    }
    cov.update(extra)
    cov["probes"] = {k: ("reproduces: " + d if d else "property holds on the probe (finding does not reproduce)") for k, d in probe_rows}
    cov["regression_demos"] = {n: ("pass" if ok else "FAIL") for n, ok in demo_rows}
    if known_hits:
        cov["known_findings_reproduced"] = known_hits
    if hasattr(mod, "evidence_hook"):
        cov = mod.evidence_hook(cov)
    ev = {
        "property_id": pid,
        "tier": args.tier,
        "seed": seed,
        "level": getattr(mod, "LEVEL", "exploration"),
        "coverage": cov,
        "assumptions": list(getattr(mod, "ASSUMPTIONS", [])),
        "wall_s": round(wall, 2),
        "violations": violations,
    }
    if rc != 2 and not os.environ.get("VERIF_NO_EVIDENCE"):
        os.makedirs(os.path.join(VERIF, "evidence"), exist_ok=True)
        with open(os.path.join(VERIF, "evidence", f"{pid}.json"), "w") as fh:
            json.dump(ev, fh, indent=1, default=repr)
    print(f"{pid} tier={args.tier} seed={seed}: {cov['evaluations']} cases, {cov['distinct_nontrivial']} distinct non-trivial, {violations} violation(s), {wall:.1f}s")
    return rc


if __name__ == "__main__":
    sys.exit(main())
