"""Play a (spec, config, history) scenario against the real library and against the reference interpreter.

case = {"spec": ..., "cfg": {"rtc": bool, "allow": bool, "driver": "sync"|"loop"|"threads", "activate": bool},
        "history": [{"val": {cbid: value}, "ev": str, "args": [...], "kw": {...}, "style": "send"|"method"}],
        "fault": [cbid, occ] | None, "faults": {step_index: [cbid, occ]} }
"""
from __future__ import annotations

import asyncio
import gc
import threading
import warnings
from inspect import isawaitable

from statemachine.exceptions import InvalidDefinition, TransitionNotAllowed

from . import core
from .core import Boom, ExpBoom, ExpTNA, HarnessError, Interp, Mismatch, exc_matches, render, result_matches
from .gen import is_async_spec


class Fail(Exception):
    def __init__(self, kind, detail):
        super().__init__(f"{kind}: {detail}")
        self.kind, self.detail = kind, detail


def _call_style(sm, step):
    ev, a, kw = step["ev"], step.get("args", []), step.get("kw", {})
    style = step.get("style", "send")
    if style == "method" and hasattr(type(sm), ev) and ev in [str(e) for e in sm.events]:
        return getattr(sm, ev)(*a, **kw)
    return sm.send(ev, *a, **kw)


class Play:
    """Runs the real machine step by step; after every step lets the interpreter parse the recorded log."""

    def __init__(self, case, rendered=None):
        self.case = case
        self.spec = case["spec"]
        cfg = case.get("cfg", {})
        self.rtc = cfg.get("rtc", True)
        self.allow = cfg.get("allow", False)
        self.driver = cfg.get("driver", "sync")
        self.explicit_activate = cfg.get("activate", False)
        self.late = tuple(cfg.get("late", ()))
        self.rendered = rendered or render(self.spec)
        provs = {c["prov"] for c in self.spec["cbs"]} | {g["prov"] for g in self.spec.get("guards", [])}
        self.is_async = is_async_spec(self.spec)
        self.stats = {}
        self.labels = set()
        self.nontrivial = False
        self.sm = None
        self.H = None
        self.interp = None
        self.warnings = []

    # ---- one observation/expectation round
    def check_round(self, obs, run_expected, what, ignore_result=False):
        """obs = ("ok", value) | ("exc", exception); run_expected() drives the interpreter over the log."""
        it = self.interp
        it.begin(list(self.H.log))
        try:
            try:
                exp = ("ok", run_expected())
            except (ExpBoom, ExpTNA) as e:
                exp = ("exc", e)
            it.finish()
        except Mismatch as m:
            m.detail += f" | {what} | log: {self.H.log[max(0, (m.pos or 0) - 6):(m.pos or 0) + 4]!r}"
            raise
        if exp[0] == "ok":
            if obs[0] != "ok":
                raise Fail("unexpected-exception", f"{what}: raised {obs[1]!r}, expected result {exp[1]!r}")
            if not ignore_result and not result_matches(exp[1], obs[1]):
                raise Fail("wrong-result", f"{what}: returned {obs[1]!r}, expected {exp[1]!r}")
        else:
            if obs[0] != "exc":
                raise Fail("missing-exception", f"{what}: returned {obs[1]!r}, expected {type(exp[1]).__name__} {vars(exp[1])}")
            d = exc_matches(exp[1], obs[1], self.H)
            if d:
                raise Fail("wrong-exception", f"{what}: {d}")
        self.check_state(what)
        self.H.log.clear()
        return exp

    def check_state(self, what):
        it = self.interp
        exp_val = it.svalue(it.state)
        obs_val = self.sm.current_state_value
        if repr(obs_val) != repr(exp_val):
            raise Fail("wrong-state", f"{what}: machine is in {obs_val!r}, expected {exp_val!r}")
        if it.state is not None:
            sid = self.sm.current_state.id
            if sid != it.sid(it.state):
                raise Fail("wrong-state", f"{what}: current_state.id is {sid!r}, expected {it.sid(it.state)!r}")

    def construct(self):
        r = self.rendered
        self.H = r.new_H()
        self.H.depth = bool(self.case.get("depth"))
        all_provs = {c["prov"] for c in self.spec["cbs"]} | {g["prov"] for g in self.spec.get("guards", [])}
        self.is_async = is_async_spec(self.spec, all_provs - set(self.late))
        self.interp = Interp(self.spec, rtc=self.rtc, allow=self.allow, is_async=self.is_async, providers=all_provs - set(self.late))
        self.set_val(self.case.get("val0", {}))
        self.set_fault(self.case.get("faults", {}).get("init"))
        try:
            self.sm, _ = r.make(rtc=self.rtc, allow=self.allow, Hh=self.H)
            obs = ("ok", None)
        except (Boom, TransitionNotAllowed) as e:
            # a failure during initial activation escapes from the constructor: there is no machine to go on with.
            self.H.log[:] = [t for t in self.H.log if t[0] != "G"]
            it = self.interp
            it.begin(list(self.H.log))
            try:
                it.activate()
            except (ExpBoom, ExpTNA) as exp:
                d = exc_matches(exp, e, self.H)
                if d:
                    raise Fail("wrong-exception", f"construction: {d}")
                raise Fail("skip", "initial activation fails (as expected)")
            raise Fail("unexpected-exception", f"construction raised {e!r}")
        # names that resolve to properties/attributes are read once at registration to see whether they are
        # callable: those reads are not guard evaluations
        self.H.log[:] = [t for t in self.H.log if t[0] != "G"]
        if self.is_async:
            # documented: not activated by the constructor
            if self.H.log:
                raise Fail("async-activated-in-constructor", f"records during construction of an async machine: {self.H.log[:3]}")
            if self.sm.current_state_value is not None:
                raise Fail("async-activated-in-constructor", "state set by the constructor of an async machine")
        else:
            self.check_round(obs, lambda: self.interp.activate(), "construction", ignore_result=True)
        for p in self.late:  # late listeners are attached after construction (for a sync machine: after activation)
            if p in self.H.objs:
                self.sm.add_listener(self.H.objs[p])
            self.interp.providers.add(p)
        self.is_async = self.interp.is_async = is_async_spec(self.spec)
        self.H.log[:] = [t for t in self.H.log if t[0] != "G"]

    def set_val(self, upd):
        for k, v in upd.items():
            self.H.val[k] = v
        self.interp.val = dict(self.H.val)

    def set_fault(self, fault):
        f = tuple(fault) if fault else None
        self.H.fault = f
        self.interp.fault = f
        self.H.no_sender_yields = f is not None

    # ---- drivers
    def run_sync(self):
        self.construct()
        if self.is_async and self.explicit_activate:
            obs = self._obs(lambda: self.sm.activate_initial_state())
            self.check_round(obs, lambda: self.interp.activate(), "activate_initial_state()", ignore_result=True)
        for i, step in enumerate(self.case["history"]):
            self.set_val(step.get("val", {}))
            self.set_fault(self.case.get("faults", {}).get(str(i)))
            obs = self._obs(lambda: _call_style(self.sm, step))
            self.after_step(i, step, obs)

    def _obs(self, fn):
        try:
            return ("ok", fn())
        except (Boom, TransitionNotAllowed) as e:
            return ("exc", e)
        except RecursionError:
            raise Fail("skip", "recursion limit")
        except InvalidDefinition as e:
            return ("exc", e)

    def after_step(self, i, step, obs):
        before_stats = dict(self.interp.stats)
        what = f"step {i} send({step['ev']!r})"
        exp = self.check_round(obs, lambda: self.interp.send(step["ev"], step.get("args", []), step.get("kw", {})), what)
        self.on_step(i, step, obs, exp, before_stats)

    def on_step(self, i, step, obs, exp, before_stats):
        pass

    async def run_loop(self):
        self.construct()
        if self.is_async and self.explicit_activate:
            obs = await self._aobs(lambda: self.sm.activate_initial_state())
            self.check_round(obs, lambda: self.interp.activate(), "activate_initial_state()", ignore_result=True)
        for i, step in enumerate(self.case["history"]):
            self.set_val(step.get("val", {}))
            self.set_fault(self.case.get("faults", {}).get(str(i)))
            obs = await self._aobs(lambda: _call_style(self.sm, step))
            if obs[0] == "exc":
                for _ in range(4):  # let sibling coroutines of a failed group finish (their records are discounted)
                    await asyncio.sleep(0)
            self.after_step(i, step, obs)

    async def _aobs(self, fn):
        try:
            r = fn()
            if isawaitable(r):
                r = await r
            return ("ok", r)
        except (Boom, TransitionNotAllowed) as e:
            return ("exc", e)
        except InvalidDefinition as e:
            return ("exc", e)

    def run_threads(self):
        """Every step is issued from a fresh thread that has no event loop."""
        self.construct()
        if self.is_async and self.explicit_activate:
            box = {}
            t = threading.Thread(target=lambda: box.update(obs=self._obs(lambda: self.sm.activate_initial_state())))
            t.start()
            t.join(30)
            if t.is_alive():
                raise HarnessError("driver thread did not finish")
            self.check_round(box["obs"], lambda: self.interp.activate(), "activate_initial_state()", ignore_result=True)
        for i, step in enumerate(self.case["history"]):
            self.set_val(step.get("val", {}))
            self.set_fault(self.case.get("faults", {}).get(str(i)))
            box = {}

            def body():
                box["obs"] = self._obs(lambda: _call_style(self.sm, step))

            t = threading.Thread(target=body)
            t.start()
            t.join(30)
            if t.is_alive():
                raise HarnessError("driver thread did not finish")
            self.after_step(i, step, box["obs"])

    def run(self):
        with warnings.catch_warnings(record=True) as w:
            warnings.simplefilter("always")
            if self.driver == "loop":
                asyncio.run(self.run_loop())
            elif self.driver == "threads":
                self.run_threads()
            else:
                self.run_sync()
            gc.collect()
        bad = [x for x in w if issubclass(x.category, RuntimeWarning) and "never awaited" in str(x.message)]
        if bad:
            raise Fail("never-awaited", str(bad[0].message))


def construct_cfg_ok(case):
    """async machines only support rtc=True (documented): such configs must be rejected at construction."""
    spec, cfg = case["spec"], case.get("cfg", {})
    return not (is_async_spec(spec) and not cfg.get("rtc", True))


def outcome(ok, signature="", detail="", nontrivial=False, labels=(), stats=None, case=None):
    out = {"ok": ok, "signature": signature, "detail": detail, "nontrivial": nontrivial, "labels": list(labels), "stats": stats or {}}
    if case is not None:
        out["case"] = case  # the (smaller) case that reproduces the failure, used for the replay file
    return out


def play_case(case, play_cls=Play, pid="C00"):
    """Generic run_case for scenario properties."""
    rendered = None
    try:
        try:
            rendered = render(case["spec"])
        except InvalidDefinition as e:
            raise HarnessError(f"generator produced an invalid definition: {e}")
        if not construct_cfg_ok(case):
            try:
                rendered.make(rtc=False, allow=case["cfg"].get("allow", False))
            except InvalidDefinition:
                return outcome(True, labels=["async-nonrtc-rejected"])
            return outcome(False, f"{pid}:async-nonrtc-accepted", "async callbacks with rtc=False were accepted at construction")
        p = play_cls(case, rendered)
        try:
            p.run()
        except Mismatch as m:
            return outcome(False, f"{pid}:{m.kind}", f"{m.detail} (log position {m.pos})", labels=p.labels)
        except Fail as f:
            if f.kind == "skip":
                return outcome(True, labels=["skipped:" + f.detail])
            return outcome(False, f"{pid}:{f.kind}", f.detail, labels=p.labels)
        st = dict(p.interp.stats) if p.interp else {}
        st.update(p.stats)
        return outcome(True, nontrivial=p.nontrivial, labels=p.labels, stats=st)
    finally:
        if rendered is not None:
            dispose(rendered)


def dispose(rendered):
    for name in [rendered.cls.__name__] + [c.__name__ for c in rendered.provider_classes.values()]:
        try:
            delattr(core.HARNESS_MODULE, name)
        except AttributeError:
            pass
    try:  # hygiene only: the library keeps every class ever defined in a process-global registry
        from statemachine import registry

        registry._REGISTRY.pop(rendered.cls.__name__, None)
        registry._REGISTRY.pop(f"{rendered.cls.__module__}.{rendered.cls.__name__}", None)
    except Exception:
        pass
