"""Play a (spec, config, history) scenario against the real library and against the reference interpreter.

case = {"spec": ..., "cfg": {"rtc": bool, "allow": bool, "driver": "sync"|"loop"|"threads", "activate": bool, "late": [prov...],
                              "state_field": str, "start_value": <codec>, "model_shape": str},
        "history": [step...], "faults": {step_index: [cbid, occ]}}
step = {"op": "send" (default), "val": {cbid: value}, "ev": str, "args": [...], "kw": {...}, "style": ..., "target": ctx name}
other ops: activate, write, write_invalid, attach, sibling, clone, reconstruct (see the op_* methods).
"""
from __future__ import annotations

import asyncio
import copy
import gc
import pickle
import threading
import warnings
from inspect import isawaitable

from statemachine.exceptions import InvalidDefinition, InvalidStateValue, TransitionNotAllowed

from . import core
from .core import Boom, ExpBoom, ExpTNA, HarnessError, Interp, Mismatch, dec, exc_matches, render, result_matches
from .gen import is_async_spec


class Fail(Exception):
    def __init__(self, kind, detail):
        super().__init__(f"{kind}: {detail}")
        self.kind, self.detail = kind, detail


class Ctx:
    """One machine under observation: real instance, its recorder and its reference interpreter."""

    def __init__(self, name, sm, Hh, interp, model):
        self.name, self.sm, self.H, self.interp, self.model = name, sm, Hh, interp, model
        self.extra = {}


# ------------------------------------------------------------------------------------------ model shapes
def make_model(shape, base, field, Hh):
    """Domain model objects of different shapes (C10). `base` is the generated class holding model callbacks (or object)."""
    base = base or object
    ns = {"__module__": core.__name__}
    if shape == "default":
        return None if base is object else _finish(type(base.__name__ + "_m", (base,), ns)(), Hh)
    if shape == "plain":
        cls = type(base.__name__ + "_plain", (base,), ns)
    elif shape == "preset-none":
        cls = type(base.__name__ + "_preset", (base,), ns)
        o = cls()
        setattr(o, field, None)
        return _finish(o, Hh)
    elif shape == "class-default":
        cls = type(base.__name__ + "_cdef", (base,), dict(ns, **{field: None}))
    elif shape == "property":
        def fget(self):
            return self.__dict__.get("_store")

        def fset(self, v):
            self.__dict__.setdefault("_writes", []).append(v)
            self.__dict__["_store"] = v

        cls = type(base.__name__ + "_prop", (base,), dict(ns, **{field: property(fget, fset)}))
    elif shape == "falsy-list":
        cls = type(base.__name__ + "_list", (base, list) if base is not object else (list,), ns)
    elif shape == "falsy-dict":
        # a mapping that keeps its state in a normal attribute (think dict / UserDict based domain objects; empty = falsy)
        cls = type(base.__name__ + "_dict", (base, dict) if base is not object else (dict,), ns)
    elif shape == "userdict":
        import collections

        cls = type(base.__name__ + "_udict", (base, collections.UserDict) if base is not object else (collections.UserDict,), ns)
    elif shape == "len0":
        cls = type(base.__name__ + "_len0", (base,), dict(ns, __len__=lambda self: 0))
    elif shape == "bool-false":
        cls = type(base.__name__ + "_false", (base,), dict(ns, __bool__=lambda self: False))
    else:
        raise HarnessError(f"unknown model shape {shape}")
    cls.__qualname__ = cls.__name__
    setattr(core.HARNESS_MODULE, cls.__name__, cls)
    return _finish(cls(), Hh)


def _finish(o, Hh):
    try:
        o.H = Hh
    except AttributeError:
        pass
    cls = type(o)
    cls.__qualname__ = cls.__name__
    setattr(core.HARNESS_MODULE, cls.__name__, cls)
    return o


class Driver:
    """Listener of the subject that drives another machine from inside the subject's callbacks (records nothing in the subject's recorder)."""

    def __init__(self):
        self.armed = None
        self.results = []

    def _drive(self):
        if self.armed is None:
            return
        peer, events = self.armed
        self.armed = None
        for ev, a, kw in events:
            try:
                self.results.append(("ok", peer.send(ev, *a, **kw)))
            except (TransitionNotAllowed, Boom) as e:
                self.results.append(("exc", e))

    def on_enter_state(self):
        self._drive()

    def on_exit_state(self):
        self._drive()


class Play:
    """Runs the real machine step by step; after every step lets the interpreter parse the recorded log."""

    def __init__(self, case, rendered=None):
        self.case = case
        self.spec = case["spec"]
        cfg = case.get("cfg", {})
        self.cfg = cfg
        self.rtc = cfg.get("rtc", True)
        self.allow = cfg.get("allow", False)
        self.driver = cfg.get("driver", "sync")
        self.explicit_activate = cfg.get("activate", False)
        self.late = tuple(cfg.get("late", ()))
        self.field = cfg.get("state_field", "state")
        self.rendered = rendered or render(self.spec)
        self.is_async = is_async_spec(self.spec)
        self.stats = {}
        self.labels = set()
        self.nontrivial = False
        self.ctxs = {}
        self.main = None
        self.i = -1

    # compatibility accessors (the main context)
    @property
    def sm(self):
        return self.main.sm

    @property
    def H(self):
        return self.main.H

    @property
    def interp(self):
        return self.main.interp if self.main else None

    # ---- one observation/expectation round
    def check_round(self, ctx, obs, run_expected, what, ignore_result=False):
        """obs = ("ok", value) | ("exc", exception); run_expected() drives the interpreter over the log."""
        it = ctx.interp
        it.begin(list(ctx.H.log))
        try:
            try:
                exp = ("ok", run_expected())
            except (ExpBoom, ExpTNA) as e:
                exp = ("exc", e)
            it.finish()
        except Mismatch as m:
            m.detail += f" | {what} | log: {ctx.H.log[max(0, (m.pos or 0) - 6):(m.pos or 0) + 4]!r}"
            raise
        if exp[0] == "ok":
            if obs[0] != "ok":
                raise Fail("unexpected-exception", f"{what}: raised {obs[1]!r}, expected result {exp[1]!r}")
            if not ignore_result and not result_matches(exp[1], obs[1]):
                raise Fail("wrong-result", f"{what}: returned {obs[1]!r}, expected {exp[1]!r}")
        else:
            if obs[0] != "exc":
                raise Fail("missing-exception", f"{what}: returned {obs[1]!r}, expected {type(exp[1]).__name__} {vars(exp[1])}")
            d = exc_matches(exp[1], obs[1], ctx.H)
            if d:
                raise Fail("wrong-exception", f"{what}: {d}")
        self.check_state(ctx, what)
        ctx.H.log.clear()
        return exp

    def check_state(self, ctx, what):
        it = ctx.interp
        exp_val = it.svalue(it.state)
        obs_val = ctx.sm.current_state_value
        if repr(obs_val) != repr(exp_val):
            raise Fail("wrong-state", f"{what}: machine is in {obs_val!r}, expected {exp_val!r}")
        if it.state is not None:
            sid = ctx.sm.current_state.id
            if sid != it.sid(it.state):
                raise Fail("wrong-state", f"{what}: current_state.id is {sid!r}, expected {it.sid(it.state)!r}")
            active = [s_["id"] for s_ in self.spec["states"] if getattr(ctx.sm, s_["id"]).is_active]
            if active != [it.sid(it.state)]:
                raise Fail("is-active", f"{what}: active states {active}, expected exactly [{it.sid(it.state)!r}]")
        self.invariants(ctx, what)

    def invariants(self, ctx, what):
        pass

    # ---- construction
    def ctor_kwargs(self):
        kw = {}
        if "state_field" in self.cfg:
            kw["state_field"] = self.field
        if "start_value" in self.cfg:
            kw["start_value"] = dec(self.cfg["start_value"])
        return kw

    def start_index(self):
        if "start_value" not in self.cfg:
            return None
        want = repr(dec(self.cfg["start_value"]))
        for i, s in enumerate(self.spec["states"]):
            if repr(dec(s["value"]) if "value" in s else s["id"]) == want:
                return i
        raise HarnessError("start_value is not a state value")

    def new_interp(self, providers, is_async, state0=None):
        it = Interp(self.spec, rtc=self.rtc, allow=self.allow, is_async=is_async, providers=providers, start=self.start_index(),
                    instance_cbs=getattr(self, "_instance_cbs", True))
        if state0 is not None:
            it.state = state0
            it.queue.clear()
        if getattr(self, "_carry_occ", None) is not None:  # the recorder (and its occurrence counters) outlives the machine
            it.occ = self._carry_occ
            self._carry_occ = None
        return it

    async def construct(self, name="main", model=None, Hh=None, state0=None):
        if name == "sib" and "sib_start" in self.case:
            # the sibling instance starts elsewhere (or at the declared initial state although the subject used start_value)
            saved = self.cfg
            self.cfg = dict(saved)
            self.cfg.pop("start_value", None)
            j = self.case["sib_start"]
            if j is not None:
                s_ = self.spec["states"][j % len(self.spec["states"])]
                self.cfg["start_value"] = s_["value"] if "value" in s_ else s_["id"]
            try:
                return await self._construct(name, model, Hh, state0)
            finally:
                self.cfg = saved
        return await self._construct(name, model, Hh, state0)

    async def _construct(self, name="main", model=None, Hh=None, state0=None):
        r = self.rendered
        Hh = Hh or r.new_H()
        Hh.depth = bool(self.case.get("depth"))
        all_provs = {c["prov"] for c in self.spec["cbs"]} | {g["prov"] for g in self.spec.get("guards", [])}
        ctor_provs = {p for p in all_provs if not p.startswith("late")}  # late* providers are attached by add_listener only
        # callbacks that are attributes of one provider object only: the first instance has them, a sibling may not
        self._instance_cbs = True if name == "main" else bool(self.case.get("sib_instance_cbs", False))
        extra_ctor = ()
        if name != "main" and self.case.get("sib_late_as_ctor"):
            # the sibling gets the "late" listener objects already through its constructor: what kind of engine an instance
            # needs is decided per instance, not per class
            extra_ctor = tuple(p for p in all_provs if p.startswith("late"))
            ctor_provs |= set(extra_ctor)
        is_async = is_async_spec(self.spec, ctor_provs, self._instance_cbs)
        it = self.new_interp(ctor_provs, is_async, state0)
        ctx = Ctx(name, None, Hh, it, None)
        self.ctxs[name] = ctx
        if name == "main":
            self.main = ctx
            self.is_async = is_async
        self.set_val(ctx, self.case.get("val0", {}))
        # guards that are plain data attributes start as None on every freshly created provider object (the machine always, model
        # and listeners unless an existing model object is reused): the constructor's own activation already sees that
        for k in Hh.attr_guards:
            if not (k.endswith("@model") and model is not None and not getattr(self, "_fresh_model", False)):
                Hh.val[k] = None
        it.val = dict(Hh.val)
        self.set_fault(ctx, None)
        mk = {}
        if model is None:
            shape = self.cfg.get("model_shape", "default")
            if shape != "default":
                mk["model"] = make_model(shape, r.provider_classes.get("model"), self.field, Hh)
                mk["model_given"] = True
        else:
            mk["model"] = model
            mk["model_given"] = True
        try:
            sm, _ = r.make(rtc=self.rtc, allow=self.allow, Hh=Hh, instance_cbs=self._instance_cbs, extra_ctor=extra_ctor, **mk, **self.ctor_kwargs())
        except (Boom, TransitionNotAllowed) as e:
            # a failure during initial activation escapes from the constructor: there is no machine to go on with.
            Hh.log[:] = [t for t in Hh.log if t[0] != "G"]
            it.begin(list(Hh.log))
            try:
                it.activate()
            except (ExpBoom, ExpTNA) as exp:
                d = exc_matches(exp, e, Hh)
                if d:
                    raise Fail("wrong-exception", f"construction: {d}")
                raise Fail("skip", "initial activation fails (as expected)")
            raise Fail("unexpected-exception", f"construction raised {e!r}")
        except HarnessError:
            raise
        except Exception as e:
            # the definition is valid by construction: nothing else may escape from the constructor
            raise Fail("construction-failed", f"construction of {name} raised {type(e).__name__}: {e}")
        ctx.sm = sm
        ctx.model = mk.get("model") if mk.get("model_given") else Hh.objs.get("model")
        # names that resolve to properties/attributes are read once at registration to see whether they are
        # callable: those reads are not guard evaluations
        Hh.log[:] = [t for t in Hh.log if t[0] != "G"]
        if is_async:
            # documented: not activated by the constructor
            if Hh.log:
                raise Fail("async-activated-in-constructor", f"records during construction of an async machine: {Hh.log[:3]}")
            if state0 is None and sm.current_state_value is not None:
                raise Fail("async-activated-in-constructor", "state set by the constructor of an async machine")
        else:
            self.check_round(ctx, ("ok", None), lambda: it.activate(), f"construction of {name}", ignore_result=True)
        for p in self.late:  # late listeners are attached after construction (for a sync machine: after activation)
            self.attach(ctx, p)
        if name == "main" and not ctx.interp.is_async and self.case.get("driver_listener"):
            self.drv = Driver()
            ctx.sm.add_listener(self.drv)
        return ctx

    def attach(self, ctx, p, via="listener"):
        if p in ctx.H.objs:
            try:
                if via == "observer":
                    ctx.sm.add_observer(ctx.H.objs[p])  # the deprecated spelling
                elif via == "with-bystander":
                    ctx.sm.add_listener(core.Bystander(), ctx.H.objs[p])  # several listeners in one call
                else:
                    ctx.sm.add_listener(ctx.H.objs[p])
            except HarnessError:
                raise
            except Exception as e:
                raise Fail("add-listener-failed", f"add_listener({p}) raised {type(e).__name__}: {e}")
        ctx.interp.providers.add(p)
        ctx.interp.is_async = is_async_spec(self.spec, ctx.interp.providers, ctx.interp.instance_cbs)
        if ctx is self.main:
            self.is_async = ctx.interp.is_async
        ctx.H.log[:] = [t for t in ctx.H.log if t[0] != "G"]

    def set_val(self, ctx, upd):
        for k, v in upd.items():
            ctx.H.val[k] = v
        self.sync_attr_guards(ctx, upd)
        ctx.interp.val = dict(ctx.H.val)

    def sync_attr_guards(self, ctx, keys):
        """guards that are plain data attributes live on the provider object itself"""
        if ctx.sm is None:
            return
        for k in keys:
            if k in ctx.H.attr_guards:
                name, prov = k.split("@")
                o = ctx.sm if prov == "machine" else ctx.H.objs.get(prov)
                if o is not None:
                    setattr(o, name, ctx.H.val.get(k))

    def set_fault(self, ctx, fault):
        if fault and len(fault) > 2 and fault[2] == "guard":
            ctx.H.guard_fault = ctx.interp.guard_fault = fault[0]
            ctx.H.guard_fault_kind = fault[3] if len(fault) > 3 else "boom"
            fault = None
        else:
            ctx.H.guard_fault = ctx.interp.guard_fault = None
        f = tuple(fault[:2]) if fault else None
        ctx.H.fault_kind = fault[2] if fault and len(fault) > 2 else "boom"
        ctx.H.fault = f
        ctx.interp.fault = f
        ctx.H.no_sender_yields = f is not None

    # ---- drivers: `call` executes a thunk the way the configured driver does and returns the observation
    def _obs(self, fn):
        try:
            return ("ok", fn())
        except RecursionError as e:
            if self.rtc:
                return ("exc", e)  # run-to-completion must not grow the stack with the number of queued events
            raise Fail("skip", "recursion limit")
        except HarnessError:
            raise
        except (Exception, asyncio.CancelledError) as e:  # whatever escapes the library is an observation (compared with the expected outcome)
            return ("exc", e)

    async def call(self, fn, strict_await=False):
        if self.driver == "loop":
            try:
                r = fn()
                if isawaitable(r):
                    r = await r
                elif strict_await:
                    # inside a running loop the entry points of a machine with coroutine callbacks are awaited (docs/async.md):
                    # `await sm.send(..)` / `await sm.activate_initial_state()` on a non-awaitable is a TypeError for the user
                    raise TypeError(f"object {type(r).__name__} can't be used in 'await' expression")
                return ("ok", r)
            except RecursionError as e:
                if self.rtc:
                    return ("exc", e)
                raise Fail("skip", "recursion limit")
            except HarnessError:
                raise
            except (Exception, asyncio.CancelledError) as e:
                # (the harness never cancels the task that drives the scenario: a CancelledError here came out of the library)
                for _ in range(8):  # let sibling coroutines of a failed group finish (their records are discounted)
                    await asyncio.sleep(0)
                return ("exc", e)
        if self.driver == "threads":
            box = {}
            t = threading.Thread(target=lambda: box.update(obs=self._obs(fn)))
            t.start()
            t.join(60)
            if t.is_alive():
                raise HarnessError("driver thread did not finish")
            return box["obs"]
        obs = self._obs(fn)
        if obs[0] == "exc" and any(c.interp is not None and c.interp.is_async for c in self.ctxs.values()):
            # sync code driving a coroutine machine: the library runs it on a loop it keeps for the thread; sibling coroutines of
            # a failed group are still pending there.  Let them finish now (their records are discounted), as in the loop driver.
            from statemachine.utils import run_async_from_sync

            async def spin():
                for _ in range(8):
                    await asyncio.sleep(0)

            run_async_from_sync(spin())
        return obs

    # ---- ops
    def trigger_fn(self, ctx, step):
        ev, a, kw = step["ev"], step.get("args", []), step.get("kw", {})
        sm = ctx.sm
        style = step.get("style", "send")
        declared = ev in [str(e) for e in sm.events]
        if style == "method" and declared:
            return lambda: getattr(sm, ev)(*a, **kw)
        if style == "events-item" and declared:
            return lambda: [e for e in sm.events if e == ev][0](*a, **kw)
        if style == "allowed-item" and ev in [str(e) for e in self.safe_allowed(sm)]:
            return lambda: [e for e in sm.allowed_events if e == ev][0](*a, **kw)
        if style == "bound" and declared and "bound" in ctx.extra:
            tgt = ctx.extra["bound"]
            if "bound2" in ctx.extra and len(a) % 2:  # (several targets bound in one call: any of them will do)
                tgt = ctx.extra["bound2"]
            return lambda: getattr(tgt, ev)(*a, **kw)
        return lambda: sm.send(ev, *a, **kw)

    @staticmethod
    def safe_allowed(sm):
        try:
            return sm.allowed_events
        except InvalidStateValue:
            return []

    async def op_send(self, step):
        ctx = self.ctxs[step.get("target", "main")]
        self.set_val(ctx, step.get("val", {}))
        self.set_fault(ctx, self.case.get("faults", {}).get(str(self.i)))
        self._log = None
        obs = await self.call(self.trigger_fn(ctx, step), strict_await=ctx.interp.is_async)
        self.after_step(self.i, step, obs, ctx)

    def after_step(self, i, step, obs, ctx=None):
        ctx = ctx or self.main
        before_stats = dict(ctx.interp.stats)
        what = f"step {i} {ctx.name}.send({step['ev']!r})"
        exp = self.check_round(ctx, obs, lambda: ctx.interp.send(step["ev"], step.get("args", []), step.get("kw", {})), what)
        if ctx is self.main:
            self.on_step(i, step, obs, exp, before_stats)

    def on_step(self, i, step, obs, exp, before_stats):
        pass

    async def op_activate(self, step):
        ctx = self.ctxs[step.get("target", "main")]
        obs = await self.call(lambda: ctx.sm.activate_initial_state(), strict_await=ctx.interp.is_async)
        self.check_round(ctx, obs, lambda: ctx.interp.activate(), f"step {self.i} activate_initial_state()", ignore_result=True)

    async def op_attach(self, step):
        ctx = self.ctxs[step.get("target", "main")]
        self.attach(ctx, step["prov"], step.get("via", "listener"))
        self.labels.add("attach:" + ("repeat" if step.get("repeat") else "first"))

    async def op_reconstruct(self, step):
        """A new machine over the same model object (restart after any history): a stored valid state is resumed untouched,
        no callback runs; a model without state is activated as usual."""
        old = self.ctxs[step.get("target", "main")]
        model = old.sm.model
        stored = getattr(model, self.field, None)
        for k in ("rtc", "allow"):
            if k in step:
                setattr(self, k, step[k])
        state0 = old.interp.state
        old.H.log.clear()
        self._carry_occ = old.interp.occ
        if step.get("fresh"):
            # another instance of the same class over a brand-new model, possibly with another start_value
            self.cfg = dict(self.cfg)
            self.cfg.pop("start_value", None)
            if "start_value" in step:
                self.cfg["start_value"] = step["start_value"]
            shape = self.cfg.get("model_shape", "default")
            base = self.rendered.provider_classes.get("model")
            model = make_model(shape if shape != "default" or base else "plain", base, self.field, old.H)
            state0 = None
            self.labels.add("fresh-model-same-class")
            self._fresh_model = True
        try:
            ctx = await self.construct(old.name, model=model, Hh=old.H, state0=state0)
        finally:
            self._fresh_model = False
        if not step.get("fresh"):
            ctx.extra.update({k: v for k, v in old.extra.items() if k == "user_model"})
        if state0 is not None:
            now = getattr(model, self.field, None)
            if now is not stored and repr(now) != repr(stored):
                raise Fail("stored-state-touched", f"step {self.i}: reconstruction changed the stored value from {stored!r} to {now!r}")
            if now is not stored and type(stored).__module__ == "vcheck.core":
                raise Fail("stored-state-touched", f"step {self.i}: reconstruction replaced the stored enum member")
        self.labels.add("reconstruct:" + ("resume" if state0 is not None else "fresh"))
        self.check_state(ctx, f"step {self.i} reconstruction over the same model")

    async def op_write(self, step):
        """external write of a valid value"""
        ctx = self.main
        if ctx.interp.state is None:
            return
        idx = step["state"] % len(self.spec["states"])
        v = ctx.interp.svalue(idx)
        via = step["via"]
        if via == "model":
            setattr(ctx.sm.model, self.field, v)
        elif via == "csv":
            ctx.sm.current_state_value = v
        else:
            ctx.sm.current_state = getattr(ctx.sm, self.spec["states"][idx]["id"])
        ctx.interp.state = idx
        self.labels.add("write:" + via)
        if getattr(self, "WRITE_NONTRIVIAL", False):
            self.nontrivial = True
        self.check_state(ctx, f"step {self.i} external write of {v!r} via {via}")
        ctx.H.log.clear()

    async def op_sibling(self, step):
        if "sib" in self.ctxs:
            return
        save = (self.rtc, self.allow)
        self.allow = step.get("allow", self.allow)
        await self.construct("sib")
        self.rtc, self.allow = save
        self.ctxs["sib"].interp.allow = step.get("allow", self.allow)
        if self.ctxs["sib"].interp.is_async and self.explicit_activate:
            await self.op_activate({"target": "sib"})
        self.labels.add("noise:sibling")
        self._noise_since = True

    async def op_drive_from_callback(self, step):
        """Arm the driver: during the next transition of the subject its listener sends events to the sibling."""
        if "sib" not in self.ctxs or not hasattr(self, "drv") or self.ctxs["sib"].interp.is_async:
            return
        sib = self.ctxs["sib"]
        events = [(e["ev"], e.get("args", []), e.get("kw", {})) for e in step["events"]]
        self.drv.armed = (sib.sm, events)
        self.drv.results.clear()
        self._driven = True
        try:
            await self.op_send(step["then"])
        finally:
            self._driven = False
        fired = self.drv.armed is None
        self.drv.armed = None
        if not fired:
            sib.H.log.clear()
            return
        # the sibling must have processed each event by itself, completely, when it was sent
        it = sib.interp
        it.begin(list(sib.H.log))

        for (ev, a, kw), obs in zip(events, self.drv.results):
            try:
                exp = ("ok", it.send(ev, a, kw))
            except (ExpBoom, ExpTNA) as e:
                exp = ("exc", e)
            if exp[0] != obs[0] or (exp[0] == "ok" and not result_matches(exp[1], obs[1])) or (exp[0] == "exc" and exc_matches(exp[1], obs[1], sib.H)):
                raise Fail("sibling-driven-from-callback", f"step {self.i}: sibling sent {ev!r} from inside a callback of the subject gave {obs!r}, expected {exp!r}")
        try:
            it.finish()
        except Mismatch as m:
            raise Fail("sibling-driven-from-callback", f"step {self.i}: sibling's callback log after being driven from the subject's callback: {m.detail}")
        self.check_state(sib, f"step {self.i} sibling driven from inside the subject's callback")
        sib.H.log.clear()
        self.labels.add("noise:sibling-driven-from-callback")
        self.nontrivial = True

    async def op_deficient_instance(self, step):
        """Another instance of the class over a bare model and without listeners: it must be rejected with InvalidDefinition
        iff some explicitly named callback or guard name is then provided by nobody (decided per instance, whatever other
        instances exist)."""
        spec = self.spec
        named = {c["name"] for c in spec["cbs"] if c["attach"] == "name"} | {g for t in spec["trans"] for g in t.get("cond", []) + t.get("unless", [])}
        # (a guard handed over as a function object needs no provider)
        on_machine = {c["name"] for c in spec["cbs"] if c["prov"] == "machine"} | {g["name"] for g in spec.get("guards", []) if g["prov"] == "machine" or g.get("kind") == "func"}
        missing = sorted(named - on_machine)
        H2 = self.rendered.new_H()
        H2.objs = {}
        try:
            with warnings.catch_warnings():
                warnings.simplefilter("ignore")
                self.rendered.cls(H2, model=type("Bare", (), {})(), allow_event_without_transition=True)
            got = None
        except InvalidDefinition as e:
            got = e
        except (Boom, TransitionNotAllowed):
            return  # initial activation failed on its own scripted events: construction got past the definition check
        if missing and got is None:
            raise Fail("deficient-instance-accepted", f"step {self.i}: an instance whose providers lack {missing} was not rejected at instantiation")
        if not missing and got is not None:
            raise Fail("complete-instance-rejected", f"step {self.i}: an instance with every name on the machine itself was rejected: {got}")
        self.labels.add("deficient-instance:" + ("rejected" if missing else "complete"))
        for ctx in self.ctxs.values():
            ctx.H.log[:] = [t for t in ctx.H.log if t[0] != "G"]

    async def body(self):
        await self.construct()
        if self.main.interp.is_async and self.explicit_activate:
            await self.op_activate({})
        for i, step in enumerate(self.case["history"]):
            self.i = i
            await getattr(self, "op_" + step.get("op", "send"))(step)
        await self.finale()

    async def finale(self):
        pass

    def run(self):
        with warnings.catch_warnings(record=True) as w:
            warnings.simplefilter("always")
            if self.driver == "loop":
                asyncio.run(self.body())
            else:
                coro = self.body()
                try:
                    coro.send(None)
                except StopIteration:
                    pass
                else:
                    coro.close()
                    raise HarnessError("scenario body suspended outside an event loop")
            gc.collect(0)  # (un-awaited coroutine objects die by reference count; a full collection per case is O(heap))
        bad = [x for x in w if issubclass(x.category, RuntimeWarning) and "never awaited" in str(x.message)]
        if bad:
            raise Fail("never-awaited", str(bad[0].message))


def construct_cfg_ok(case):
    """async machines only support rtc=True (documented): such configs must be rejected at construction."""
    spec, cfg = case["spec"], case.get("cfg", {})
    return not (is_async_spec(spec) and not cfg.get("rtc", True))


def outcome(ok, signature="", detail="", nontrivial=False, labels=(), stats=None, case=None):
    out = {"ok": ok, "signature": signature, "detail": detail, "nontrivial": nontrivial, "labels": list(labels), "stats": stats or {}}
    if case is not None:
        out["case"] = case  # the (smaller) case that reproduces the failure, used for the replay file
    return out


def play_case(case, play_cls=Play, pid="C00"):
    """Generic run_case for scenario properties."""
    rendered = None
    try:
        try:
            rendered = render(case["spec"])
        except InvalidDefinition as e:
            # the generators only produce definitions that are valid by C09's rules (established on the unchanged tree at many
            # seeds): a valid machine that cannot be declared breaks every property that quantifies over valid machines
            return outcome(False, f"{pid}:valid-definition-rejected", f"the class statement of a valid definition raised InvalidDefinition: {e}")
        if not construct_cfg_ok(case):
            try:
                rendered.make(rtc=False, allow=case["cfg"].get("allow", False))
            except InvalidDefinition:
                return outcome(True, labels=["async-nonrtc-rejected"])
            return outcome(False, f"{pid}:async-nonrtc-accepted", "async callbacks with rtc=False were accepted at construction")
        p = play_cls(case, rendered)
        try:
            p.run()
        except Mismatch as m:
            return outcome(False, f"{pid}:{m.kind}", f"{m.detail} (log position {m.pos})", labels=p.labels)
        except Fail as f:
            if f.kind == "skip":
                return outcome(True, labels=["skipped:" + f.detail])
            return outcome(False, f"{pid}:{f.kind}", f.detail, labels=p.labels)
        st = dict(p.interp.stats) if p.interp else {}
        st.update(p.stats)
        return outcome(True, nontrivial=p.nontrivial, labels=p.labels, stats=st)
    finally:
        if rendered is not None:
            dispose(rendered)


def dispose(rendered):
    prefix = rendered.cls.__name__
    for name in [n for n in vars(core.HARNESS_MODULE) if n == prefix or n.startswith(prefix + "_")]:
        try:
            delattr(core.HARNESS_MODULE, name)
        except AttributeError:
            pass
    try:  # hygiene only: the library keeps every class ever defined in a process-global registry
        from statemachine import registry

        registry._REGISTRY.pop(rendered.cls.__name__, None)
        registry._REGISTRY.pop(f"{rendered.cls.__module__}.{rendered.cls.__name__}", None)
    except Exception:
        pass
