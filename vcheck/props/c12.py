"""C12 — listeners and the model are first-class callback providers, attached once (DESIGN.md 4/C12)."""
import copy

from hypothesis import strategies as st

from .. import gen
from ..core import cbid_of
from ..scenario import Fail, Play, play_case

PROPERTY = "C12"
LEVEL = "exploration"
RULE = (
    "case = generated machine whose callback names (actions by convention and by explicit name, validators, guard names) are distributed over "
    "{machine, model, constructor listeners l0/l1, late listeners late0/late1}; two listeners may be instances of one class, listener objects "
    "may compare equal (__eq__/__hash__); sync or coroutine methods. History ops: send; attach a late listener (first time); attach any listener "
    "again (any number of times, any point); create a sibling instance of the class with its own listeners and drive it. Oracle = reference "
    "interpreter with the current provider set: every provider of a name is called in the right phase with the injected arguments, a guard "
    "name holds iff it holds on all its providers, each (listener, name) runs at most once per phase occurrence, records of one instance never "
    "appear in another instance's recorder. non-trivial = a name with >=2 providers was exercised, or a repeated attachment, or a late "
    "listener providing a guard/explicitly named callback, or a sibling instance driven"
)
ASSUMPTIONS = [
    "names used in `unless` have a single provider; coroutine guards have a single provider (finding K1)",
    "late listeners only co-provide explicit names/guards that at least one construction-time provider also has (otherwise construction is refused)",
    "how often a guard of a re-attached constructor listener is evaluated is not asserted (guards are side-effect free; K3)",
    "reference interpreter trusted",
]
ALL = ("machine", "model", "l0", "l1", "late0", "late1")


class P(Play):
    async def op_send(self, step):
        await super().op_send(step)
        tgt = step.get("target", "main")
        for name, ctx in self.ctxs.items():
            if name != tgt and ctx.H.log:
                raise Fail("cross-instance-call", f"step {self.i}: event sent to {tgt} produced records in the recorder of {name}: {ctx.H.log[:2]}")

    def on_step(self, i, step, obs, exp, before):
        it = self.interp
        multi = {}
        for c in self.spec["cbs"] + self.spec.get("guards", []):
            if it.attached(c):
                multi.setdefault(c["name"], set()).add(c["prov"])
        if it.stats["callbacks"] - before.get("callbacks", 0) and any(len(v) > 1 for v in multi.values()):
            self.labels.add("multi-provider-name")
            self.nontrivial = True

    async def op_attach(self, step):
        ctx = self.ctxs[step.get("target", "main")]
        prov = step["prov"]
        again = prov in ctx.interp.providers
        if prov not in ctx.H.objs:
            return
        self.attach(ctx, prov, step.get("via", "listener"))
        self.labels.add("attach-via:" + step.get("via", "listener"))
        self.labels.add("attach:" + ("again" if again else "first") + (":late" if prov.startswith("late") else ":ctor"))
        if again:
            self.nontrivial = True
        elif any(d["prov"] == prov and (d.get("attach") == "name" or "kind" in d) for d in self.spec["cbs"] + self.spec.get("guards", [])):
            self.labels.add("late-listener-with-explicit-name-or-guard")
            self.nontrivial = True
        self.check_state(ctx, f"step {self.i} add_listener({prov})")

    async def op_sibling(self, step):
        if "sib" in self.ctxs:
            return
        ctx = await self.construct("sib")
        if self.ctxs["sib"].interp.is_async and self.explicit_activate:
            self.i_target = "sib"
            await self.op_activate({"target": "sib"})
        if self.main.H.log:
            raise Fail("cross-instance-call", f"step {self.i}: creating a sibling instance produced records in the first instance: {self.main.H.log[:2]}")
        self.labels.add("sibling")
        self.nontrivial = True


def _clone_to(spec, src, dst):
    spec["cbs"] = [c for c in spec["cbs"] if c["prov"] != dst] + [dict(copy.deepcopy(c), prov=dst) for c in spec["cbs"] if c["prov"] == src]
    spec["guards"] = [g for g in spec["guards"] if g["prov"] != dst] + [dict(g, prov=dst) for g in spec["guards"] if g["prov"] == src and not g.get("multi_block")]


@st.composite
def cases(draw, tier):
    provs = draw(st.sampled_from([ALL, ALL, ("machine", "l0", "late0"), ("machine", "model", "l0", "l1", "late0")]))
    late = tuple(p for p in provs if p.startswith("late"))
    async_mode = draw(st.sampled_from(["none", "none", "all", "mixed", "late-only", "late-only"]))
    spec = draw(gen.machine_spec(max_states=4, max_extra=6, providers=provs, late=late, async_mode=async_mode, sends=draw(st.sampled_from([False, False, True])),
                                 attach=("conv", "name"), guard_kinds=("method", "property", "attr"), instance_cbs=True))
    in_unless = {g for t in spec["trans"] for g in t["unless"]}
    # late listeners co-provide explicit names and guard names
    for c in list(spec["cbs"]):
        if c["attach"] == "name" and late and draw(st.integers(0, 9)) < 3:
            lp = draw(st.sampled_from(late))
            if not any(x["name"] == c["name"] and x["prov"] == lp for x in spec["cbs"]):
                spec["cbs"].append(dict(copy.deepcopy(c), prov=lp, sends={}))
    for g in list(spec["guards"]):
        if late and g["name"] not in in_unless and not g.get("async") and draw(st.integers(0, 9)) < 4:
            lp = draw(st.sampled_from(late))
            if not any(x["name"] == g["name"] and x["prov"] == lp for x in spec["guards"]):
                for x in spec["guards"]:
                    if x["name"] == g["name"]:
                        x["async"] = False
                        x["multi"] = True
                spec["guards"].append({"name": g["name"], "prov": lp, "kind": "method", "async": False, "multi": True})
    twin = draw(st.sampled_from([None, None, ("l1", "l0"), ("late1", "late0"), ("late0", "l0")]))
    if twin and twin[0] in provs and twin[1] in provs:
        # guard names of the original that are used in `unless` would get a second provider: drop those guard defs from cloning
        if not any(g["prov"] == twin[1] and (g["name"] in in_unless or g.get("async")) for g in spec["guards"]):
            _clone_to(spec, twin[1], twin[0])
            spec["same_class"] = {twin[0]: twin[1]}
            for g in spec["guards"]:
                if sum(1 for x in spec["guards"] if x["name"] == g["name"]) > 1:
                    g["multi"] = True
                    g["async"] = False
            spec["eq_listeners"] = draw(st.booleans())
    # late providers can only *co*-provide explicit names / guards
    ctor = {"machine", "model", "l0", "l1", "free"}
    spec["cbs"] = [c for c in spec["cbs"] if c["attach"] != "name" or c["prov"] in ctor or any(x["name"] == c["name"] and x["prov"] in ctor for x in spec["cbs"])]
    spec["guards"] = [g for g in spec["guards"] if g["prov"] in ctor or any(x["name"] == g["name"] and x["prov"] in ctor for x in spec["guards"])]
    for name in sorted({g for t in spec["trans"] for g in t["cond"] + t["unless"]}):
        if not any(g["name"] == name and g["prov"] in ctor for g in spec["guards"]):
            multi = any(g["name"] == name for g in spec["guards"])
            spec["guards"].append({"name": name, "prov": "machine", "kind": "method", "async": False, "multi": multi})
    spec["falsy_providers"] = [p for p in provs if p.startswith("l") and draw(st.integers(0, 4)) == 0 and p not in spec.get("same_class", {}) and p not in spec.get("same_class", {}).values()]
    is_async_any = gen.is_async_spec(spec)
    cfg = {"rtc": True if is_async_any else draw(st.sampled_from([True, True, False])), "allow": draw(st.booleans()),
           "driver": draw(st.sampled_from(["sync", "sync", "loop"])), "activate": True, "late": []}
    hist = []
    pending = list(late)
    have_sib = False
    for step in draw(gen.history(spec, max_steps=8 if tier == "quick" else 14)):
        r = draw(st.integers(0, 9))
        via = draw(st.sampled_from(["listener", "listener", "observer", "with-bystander"]))
        if r < 3 and pending:
            hist.append({"op": "attach", "prov": pending.pop(0), "via": via})
        elif r < 5:
            hist.append({"op": "attach", "prov": draw(st.sampled_from([p for p in provs if p not in ("machine", "model")] or ["l0"])), "again": True, "via": via})
        elif r < 6 and not have_sib:
            hist.append({"op": "sibling"})
            have_sib = True
        elif r == 6 and "model" in provs:
            # the model object is attached as a listener as well: one object in two roles is still called once per callback
            hist.append({"op": "attach", "prov": "model", "again": True, "via": via})
        if draw(st.integers(0, 9)) == 0:
            hist.append({"op": "deficient_instance"})
        if draw(st.integers(0, 7)) == 0:
            # the state is assigned from outside (documented setters / the model field): listeners attached earlier or later
            # serve every state of the machine, wherever it is put
            hist.append({"op": "write", "via": draw(st.sampled_from(["model", "csv", "cs"])), "state": draw(st.integers(0, 4))})
        if have_sib and draw(st.integers(0, 3)) == 0:
            step = dict(step, target="sib")
        hist.append(step)
    # a re-attachment of a not-yet-attached late listener is simply its first attachment
    from .c16 import twin_case

    return {"spec": spec, "cfg": cfg, "history": hist, "sib_instance_cbs": draw(st.booleans()), "sib_late_as_ctor": draw(st.booleans()),
            **({"sib_start": draw(st.one_of(st.none(), st.integers(0, 3)))} if draw(st.booleans()) else {}),
            "twin": draw(twin_case()) if draw(st.integers(0, 5)) == 0 else None}


def strategy(tier):
    return cases(tier)


def budget(tier):
    return 16 * 120 if tier == "quick" else 16 * 2000


def run_case(case):
    out = play_case(case, P, PROPERTY)
    if out["ok"] and case.get("twin"):
        # a listener attached to a shallow copy (copy.copy) of a machine belongs to that copy alone
        from .c16 import shallow_twin, shared_defaults

        for fam in (shallow_twin, shared_defaults):
            bad, labels = fam(case, PROPERTY)
            if bad is not None:
                return bad
            out["labels"] = sorted(set(out.get("labels", ())) | labels)
    return out
