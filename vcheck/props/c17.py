"""C17 — deepcopy / pickle clones are equivalent and independent (DESIGN.md 4/C17)."""
import copy
import pickle

from hypothesis import strategies as st

from .. import gen
from ..scenario import Ctx, Fail, Play, play_case
from .c10 import values_for

PROPERTY = "C17"
LEVEL = "exploration"
RULE = (
    "case = generated machine (callbacks on machine, model, constructor and late listeners, sync or coroutine, scripted nested sends, values of "
    "any kind) with non-default options (rtc, allow_event_without_transition, state_field, start_value), a model of a drawn shape and a custom "
    "mutable attribute, optionally with the event triggers bound onto the model (bind_events_to) and used from there; history with `clone` ops (copy.deepcopy or pickle round-trip) at any point - also before the activation of a coroutine "
    "machine - after which original and clones receive diverging event suffixes. Oracle: the reference interpreter is forked at the clone point "
    "and each machine must follow its own fork (states, results, exceptions, full callback logs - so options, listeners and model callbacks "
    "survived); clone.model / listeners / recorder / custom attribute are equal but not shared (mutating one side is invisible on the other); "
    "an event on one machine never produces records on another; listeners may compare equal by value; differential step: an option attribute changed on the "
    "original after construction, then cloned - original and clone must answer an undeclared event alike. non-trivial = a clone taken after >=1 event, with a non-default option or a "
    "listener, followed by events on at least two of the machines"
)
ASSUMPTIONS = ["generated classes are registered as attributes of the harness module so that pickle can find them", "reference interpreter trusted"]


class P(Play):
    async def construct(self, name="main", model=None, Hh=None, state0=None):
        ctx = await super().construct(name, model, Hh, state0)
        ctx.sm.custom = [1, {"a": [2]}]
        ctx.sm._own = {"k": [1]}  # user data kept in underscore-prefixed attributes travels with the machine too
        m = ctx.sm.model
        if self.cfg.get("bind_model") and not any(hasattr(m, e) for e in self.spec["events"]):
            try:
                ctx.sm.bind_events_to(m)  # the model gets one trigger method per event
                ctx.extra["bound"] = m
                self.labels.add("events-bound-to-model")
            except (AttributeError, TypeError):
                pass  # models that cannot take attributes (e.g. slots)
        return ctx

    async def op_send(self, step):
        tgt = step.get("target", "main")
        if tgt not in self.ctxs:
            tgt = "main"
            step = dict(step, target="main")
        await super().op_send(step)
        self.sent.setdefault(tgt, 0)
        self.sent[tgt] += 1
        for name, ctx in self.ctxs.items():
            if name != tgt and ctx.H.log:
                raise Fail("shared-state", f"step {self.i}: event sent to {tgt} produced records in the recorder of {name}: {ctx.H.log[:2]}")
        # at least two of the machines (original / clones) received events after the last clone point
        if len(self.ctxs) > 1 and sum(1 for n in self.ctxs if self.sent.get(n, 0) > self.sent_at_clone.get(n, 0)) >= 2:
            if self.clone_interesting:
                self.nontrivial = True
                self.labels.add("diverged-after-clone")

    async def op_clone(self, step):
        src = self.ctxs[step.get("source", "main")] if step.get("source", "main") in self.ctxs else self.main
        name = step["name"]
        if name in self.ctxs:
            return
        how = step["how"]
        src.H.log.clear()
        try:
            if how == "deepcopy":
                sm2 = copy.deepcopy(src.sm)
            else:
                sm2 = pickle.loads(pickle.dumps(src.sm, protocol=step.get("protocol", pickle.HIGHEST_PROTOCOL)))
        except Exception as e:
            raise Fail("clone-failed", f"step {self.i}: {how} of the machine raised {type(e).__name__}: {e}")
        H2 = sm2.H
        if H2 is src.H:
            raise Fail("shared-state", "the clone shares the recorder object of the original (attribute not copied)")
        it2 = copy.deepcopy(src.interp)
        it2.spec = src.interp.spec
        ctx = Ctx(name, sm2, H2, it2, sm2.model)
        if "bound" in src.extra:
            ctx.extra["bound"] = sm2.model  # the copy of the model carries copies of the bound triggers
        self.ctxs[name] = ctx
        for c in (src, ctx):
            c.H.log[:] = [t for t in c.H.log if t[0] != "G"]
            if c.H.log:
                raise Fail("clone-ran-callbacks", f"step {self.i}: cloning produced callback records on {c.name}: {c.H.log[:3]}")
        what = f"step {self.i} {how} clone {name}"
        if sm2.model is src.sm.model:
            raise Fail("shared-state", f"{what}: the clone uses the very model object of the original")
        if type(sm2.model) is not type(src.sm.model):
            raise Fail("clone-differs", f"{what}: model type {type(sm2.model).__name__} vs {type(src.sm.model).__name__}")
        if sm2.custom != src.sm.custom or sm2.custom is src.sm.custom or sm2.custom[1]["a"] is src.sm.custom[1]["a"]:
            raise Fail("shared-state", f"{what}: custom mutable attribute not copied deeply: {sm2.custom!r}")
        if getattr(sm2, "_own", None) != src.sm._own or sm2._own is src.sm._own:
            raise Fail("clone-differs", f"{what}: underscore-prefixed custom attribute missing or shared in the clone: {getattr(sm2, '_own', '<missing>')!r}")
        sm2.custom[1]["a"].append(name)
        if name in src.sm.custom[1]["a"]:
            raise Fail("shared-state", f"{what}: mutating the clone's attribute changed the original")
        for k in ("state_field", "start_value", "allow_event_without_transition"):
            if repr(getattr(sm2, k)) != repr(getattr(src.sm, k)):
                raise Fail("clone-differs", f"{what}: option {k} is {getattr(sm2, k)!r}, original has {getattr(src.sm, k)!r}")
        self.check_state(ctx, what)
        self.check_state(src, what + " (original)")
        self.labels.add("clone:" + how)
        self.labels.add("clone:before-activation" if src.interp.state is None else "clone:active")
        provs = {c["prov"] for c in self.spec["cbs"]} - {"machine", "free", "model"}
        non_default = (not self.rtc) or self.allow or "state_field" in self.cfg or "start_value" in self.cfg
        self.clone_interesting = self.clone_interesting or (self.sent.get(src.name, 0) >= 1 and (non_default or bool(provs)))
        self.sent_at_clone = dict(self.sent)
        self.sent_at_clone.setdefault(name, 0)
        self.sent.setdefault(name, 0)

    async def op_option_then_clone(self, step):
        """Purely differential: an option attribute of the original is changed after construction, then the machine is cloned; the
        clone must answer an event nobody declares exactly like the original does (whatever a late option change means)."""
        src = self.ctxs[step.get("source", "main")] if step.get("source", "main") in self.ctxs else self.main
        if src.interp.state is None:
            return
        old = src.sm.allow_event_without_transition
        src.sm.allow_event_without_transition = not old
        try:
            try:
                sm2 = copy.deepcopy(src.sm) if step["how"] == "deepcopy" else pickle.loads(pickle.dumps(src.sm))
            except Exception as e:
                raise Fail("clone-failed", f"step {self.i}: {step['how']} of the machine raised {type(e).__name__}: {e}")
            outs = []
            for sm in (src.sm, sm2):
                o = await self.call(lambda sm=sm: sm.send("no_such_event_anywhere"))
                outs.append((o[0], type(o[1]).__name__))
            if outs[0] != outs[1]:
                raise Fail("clone-differs", f"step {self.i}: after allow_event_without_transition was set to {not old!r} on the original, an undeclared event gives {outs[0]} on the original and {outs[1]} on its {step['how']} clone")
        finally:
            src.sm.allow_event_without_transition = old
        src.H.log[:] = [t for t in src.H.log if t[0] != "G"]
        self.labels.add("option-changed-then-cloned")

    async def body(self):
        self.sent, self.sent_at_clone, self.clone_interesting = {}, {}, False
        await super().body()


@st.composite
def cases(draw, tier):
    provs = draw(st.sampled_from([("machine",), ("machine", "model"), ("machine", "model", "l0"), ("machine", "model", "l0", "l1", "late0"), ("machine", "l0")]))
    late = tuple(p for p in provs if p.startswith("late"))
    async_mode = draw(st.sampled_from(["none", "none", "all", "mixed", "listeners", "late-only"]))
    spec = draw(gen.machine_spec(max_states=4, max_extra=6, providers=provs, late=late, async_mode="none" if async_mode == "listeners" else async_mode,
                                 sends=draw(st.booleans()), attach=("conv", "name", "deco", "func")))
    if async_mode == "listeners":  # the only coroutines live on listeners
        for c in spec["cbs"]:
            if c["prov"].startswith("l"):
                c["async"] = True
        if gen.is_async_spec(spec):
            for c in spec["cbs"]:
                if c["sends"]:
                    c["async"] = True
    if any(p.startswith("l") for p in provs):
        spec["eq_listeners"] = draw(st.booleans())  # listeners that compare by value (think frozen dataclasses): a copy is equal to, but is not, its original
    n = len(spec["states"])
    kind = draw(st.sampled_from(["ids", "ids", "int", "enum", "mixed", "tuple", "intenum-instance"]))
    vals = values_for(kind, n, draw)
    if vals is not None:
        for s, v in zip(spec["states"], vals):
            s["value"] = v
    is_async = gen.is_async_spec(spec)
    cfg = {"rtc": True if is_async else draw(st.booleans()), "allow": draw(st.booleans()), "driver": draw(st.sampled_from(["sync", "sync", "loop"])),
           "activate": draw(st.booleans()), "late": list(late) if draw(st.booleans()) else [],
           "model_shape": draw(st.sampled_from(["default", "plain", "property", "class-default", "falsy-list", "len0", "falsy-dict", "userdict"])), "bind_model": draw(st.booleans())}
    if draw(st.booleans()):
        cfg["state_field"] = draw(st.sampled_from(["status", "st", "_state"]))
    if draw(st.integers(0, 2)) == 0:
        i = draw(st.integers(0, n - 1))
        cfg["start_value"] = spec["states"][i]["value"] if "value" in spec["states"][i] else spec["states"][i]["id"]
    hist = []
    names = []
    steps = draw(gen.history(spec, max_steps=10 if tier == "quick" else 16))
    for k, step in enumerate(steps):
        if (k == 0 and draw(st.integers(0, 5)) == 0) or (k > 0 and draw(st.integers(0, 9)) < 4 and len(names) < 3):
            nm = f"c{len(names) + 1}"
            hist.append({"op": "clone", "how": draw(st.sampled_from(["deepcopy", "pickle"])), "name": nm, "source": draw(st.sampled_from(["main"] + names)),
                         "protocol": draw(st.sampled_from([2, 4, 5]))})
            names.append(nm)
        if draw(st.integers(0, 9)) == 0:
            hist.append({"op": "option_then_clone", "how": draw(st.sampled_from(["deepcopy", "pickle"])), "source": draw(st.sampled_from(["main"] + names))})
        if draw(st.integers(0, 2)) == 0:
            step = dict(step, style="bound")
        if names:
            step = dict(step, target=draw(st.sampled_from(["main"] + names)))
        hist.append(step)
    return {"spec": spec, "cfg": cfg, "history": hist}


def strategy(tier):
    return cases(tier)


def budget(tier):
    return 16 * 100 if tier == "quick" else 16 * 1500


def run_case(case):
    return play_case(case, P, PROPERTY)
