"""C15 — every declaration style of the same machine yields the same machine (DESIGN.md 4/C15)."""
import copy

from hypothesis import strategies as st

from statemachine.exceptions import InvalidDefinition

from .. import gen
from ..core import HarnessError, dec, render
from ..scenario import Play, dispose, outcome, play_case

PROPERTY = "C15"
LEVEL = "exploration"
RULE = (
    "case = abstract machine (generator of C01/C02 plus bundles: two targets from one source, two sources into one target, one event from every "
    "non-final state) rendered in 2-4 independently drawn declaration plans: per transition a.to(b, event='e1 e2') / event=[...] / event=Event(..) / id-less Event() class attributes used in event=[..] "
    "/ b.from_(a) / to.itself() / class attribute per event combined with | in either association / explicit Event(transitions, name=); "
    "multi-target a.to(b, c); multi-source c.from_(a, b); from_.any() instead of explicit transitions from every non-final state; states as "
    "attributes / States({...}) / States.from_enum; everything declared on a base class with an empty subclass; one state and every declaration "
    "touching it added by a subclass of the class that declares the rest (the base class is instantiated first). Oracle: every rendering must "
    "satisfy the reference interpreter on the same generated history and guard valuations (states, exceptions by class/.event/.state, results, "
    "full callback logs) and all renderings must expose identical states (id, value, initial, final), the same event set and the same "
    "allowed-event set in every state. non-trivial = at least two renderings that differ in >= 2 style dimensions"
)
ASSUMPTIONS = [
    "from_.any() is only used for an event that is the only candidate of its states, so that candidate order is not affected",
    "exception messages are not compared (an explicit Event('go_back') is displayed as 'Go back' by design)",
    "reference interpreter trusted",
]
HOWS = ["kwstr", "kwlist", "kw_eventobj", "kw_placeholder", "from", "attr", "event_obj", "attr"]


def describe(r, spec):
    cls = r.cls
    states = sorted((s.id, repr(s.value), bool(s.initial), bool(s.final)) for s in cls.states)
    events = sorted(str(e) for e in cls.events)
    return states, events


def allowed_sets(r, spec):
    sm, Hh = r.make(allow=True)
    out = {}
    for s in spec["states"]:
        st_ = getattr(sm, s["id"])
        sm.current_state = st_
        out[s["id"]] = sorted({str(e) for e in sm.allowed_events})
    return out


def run_case(case):
    spec = case["spec"]
    labels = set()
    descs = []
    stats = {}
    for n, style in enumerate(case["styles"]):
        sp = dict(spec, style=style)
        sub = {"spec": sp, "cfg": case["cfg"], "history": case["history"]}
        out = play_case(sub, Play, PROPERTY)
        if not out["ok"]:
            out["detail"] = f"rendering #{n} ({summ(style)}): " + out["detail"]
            out["case"] = dict(case, styles=[style])
            return out
        for k, v in out["stats"].items():
            stats[k] = stats.get(k, 0) + v
        try:
            r = render(sp)
        except InvalidDefinition as e:
            return outcome(False, "C15:valid-definition-rejected", f"rendering #{n} ({summ(style)}): the class statement raised InvalidDefinition: {e}", case=dict(case, styles=[style]))
        try:
            from ..gen import is_async_spec

            descs.append((describe(r, sp), allowed_sets(r, sp) if not is_async_spec(sp) else None))
        except HarnessError:
            raise
        except Exception as e:
            # e.g. allowed_events of a valid rendering raising AttributeError: an observation, not a harness problem
            return outcome(False, "C15:introspection-raises", f"rendering #{n} ({summ(style)}): states / events / allowed_events of the rendered machine raised {type(e).__name__}: {e}",
                           labels=labels, case=dict(case, styles=[style]))
        finally:
            dispose(r)
        labels.add("states:" + style.get("states", "attr"))
        for d in style["trans"]:
            labels.add("how:" + d["how"])
        if style.get("inherit"):
            labels.add("inherit")
        if style.get("extend") is not None:
            labels.add("extend")
    for n, d in enumerate(descs[1:], 1):
        if d[0] != descs[0][0]:
            return outcome(False, "C15:structure-differs", f"renderings #0 ({summ(case['styles'][0])}) and #{n} ({summ(case['styles'][n])}) differ: {descs[0][0]} vs {d[0]}",
                           labels=labels, case=dict(case, styles=[case["styles"][0], case["styles"][n]]))
        if d[1] is not None and descs[0][1] is not None and d[1] != descs[0][1]:
            diff = {k: (descs[0][1][k], d[1][k]) for k in d[1] if d[1][k] != descs[0][1][k]}
            return outcome(False, "C15:allowed-events-differ", f"renderings #0 ({summ(case['styles'][0])}) and #{n} ({summ(case['styles'][n])}): allowed events per state differ: {diff}",
                           labels=labels, case=dict(case, styles=[case["styles"][0], case["styles"][n]]))
    dims = 0
    a, b = case["styles"][0], case["styles"][-1]
    dims += a.get("states") != b.get("states")
    dims += (bool(a.get("inherit")), a.get("extend")) != (bool(b.get("inherit")), b.get("extend"))
    dims += sorted(d["how"] for d in a["trans"]) != sorted(d["how"] for d in b["trans"])
    dims += a.get("assoc") != b.get("assoc")
    return outcome(True, nontrivial=dims >= 2, labels=labels, stats=stats)


def summ(style):
    return f"states={style.get('states', 'attr')} inherit={bool(style.get('inherit'))} extend={style.get('extend')} trans={[d['how'] for d in style['trans']]}"


@st.composite
def plan(draw, spec, bundles, inline_state_cbs, extend=False):
    n = len(spec["trans"])
    covered = set()
    trans = []
    by_first = {}
    for b in bundles:
        by_first[b["k"][0]] = b
    # bundles of one event are all declared with from_.any() or all explicitly (expansion happens at class creation, after every
    # explicit declaration: mixing the two would change the candidate order)
    use_any = {}
    for b in bundles:
        if b["how"] == "any":
            ev = spec["trans"][b["k"][0]]["events"][0]
            if ev not in use_any:
                use_any[ev] = draw(st.integers(0, 9)) < 7
    k = 0
    while k < n:
        t = spec["trans"][k]
        if k in by_first and (use_any[t["events"][0]] if by_first[k]["how"] == "any" else draw(st.integers(0, 9)) < 7):
            b = by_first[k]
            if b["how"] == "any":
                trans.append({"k": b["k"], "how": "any"})
            else:
                trans.append({"k": b["k"], "how": b["how"], "ev": draw(st.sampled_from(["kwstr", "kwlist", "kw_eventobj", "kw_placeholder"]))})
            k += len(b["k"])
            continue
        opts = list(HOWS)
        if t["src"] == t["dst"]:
            opts += ["itself", "itself"]
        how = draw(st.sampled_from(opts))
        d = {"k": [k], "how": how}
        if how in ("from", "itself"):
            d["ev"] = draw(st.sampled_from(["kwstr", "kwlist", "kw_eventobj", "kw_placeholder"]))
        if how in ("attr", "event_obj"):
            d["via_from"] = draw(st.booleans())
        trans.append(d)
        k += 1
    sstyles = ["attr", "attr", "dict"] + ([] if inline_state_cbs else ["enum", "enum"])
    style = {"states": draw(st.sampled_from(sstyles)), "trans": trans, "inherit": draw(st.integers(0, 3)) == 0, "assoc": draw(st.sampled_from(["left", "right"])), "ior": draw(st.booleans()), "events_first": draw(st.booleans())}
    if extend and style["states"] != "enum" and not style["inherit"]:
        zs = extend_candidates(spec, trans)
        if zs and draw(st.integers(0, 3)) > 0:
            style["extend"] = draw(st.sampled_from(zs))
    return style


def extend_candidates(spec, trans_plan):
    """States z such that the machine without z (and without every declaration touching z) is a valid machine of its own, and
    declaring the rest in a subclass keeps the candidate order of every source state (declarations of a subclass come last)."""
    S, T = spec["states"], spec["trans"]
    init = next(i for i, s_ in enumerate(S) if s_.get("initial"))
    out = []
    for z in range(len(S)):
        if z == init:
            continue
        sub = [any(z in (T[k]["src"], T[k]["dst"]) for k in d["k"]) for d in trans_plan]
        base_ks = [k for d, in_sub in zip(trans_plan, sub) if not in_sub for k in d["k"]]
        if not base_ks:
            continue
        others = set(range(len(S))) - {z}
        reach, grew = {init}, True
        while grew:
            grew = False
            for k in base_ks:
                if T[k]["src"] in reach and T[k]["dst"] not in reach:
                    reach.add(T[k]["dst"])
                    grew = True
        if reach != others:
            continue
        if any(not S[i].get("final") and not any(T[k]["src"] == i for k in base_ks) for i in others):
            continue
        ok = True
        for i in others:
            seq = [in_sub for d, in_sub in zip(trans_plan, sub) for k in d["k"] if T[k]["src"] == i]
            if True in seq and False in seq[seq.index(True):]:
                ok = False
        if ok:
            out.append(z)
    return out


@st.composite
def cases(draw, tier):
    provs = draw(st.sampled_from([("machine",), ("machine", "model"), ("machine", "model", "l0")]))
    async_mode = draw(st.sampled_from(["none", "none", "none", "all"]))
    spec = draw(gen.machine_spec(max_states=4, max_extra=5, providers=provs, async_mode=async_mode, sends=draw(st.sampled_from([False, False, True])),
                                 attach=("conv", "name", "func")))
    bundles = draw(gen.add_bundle(spec))
    vkind = draw(st.sampled_from(["ids", "ids", "int", "intenum-like", "str", "enum-instance", "intenum-instance"]))
    if vkind != "ids":
        from .c10 import values_for

        vals = values_for("int" if vkind == "intenum-like" else vkind, len(spec["states"]), draw)
        for s_, v in zip(spec["states"], vals):  # (state values incl. falsy ones: from_enum must keep flags of a 0-valued member)
            s_["value"] = v
        finals_ = [s_ for s_ in spec["states"] if s_["final"]]
        if vkind == "intenum-like" and finals_:
            # the zero value sits on a final state
            for s_ in spec["states"]:
                if s_["value"] == 0:
                    s_["value"] = finals_[0]["value"]
            finals_[0]["value"] = 0
    inline_state_cbs = any(c["scope"][0] == "state" and c["attach"] != "conv" for c in spec["cbs"])
    is_async = gen.is_async_spec(spec)
    cfg = {"rtc": True if is_async else draw(st.sampled_from([True, True, False])), "allow": draw(st.booleans()), "driver": "sync", "activate": True}
    hist = draw(gen.history(spec, max_steps=8 if tier == "quick" else 14))
    styles = [draw(plan(spec, bundles, inline_state_cbs, extend=True)) for _ in range(draw(st.integers(2, 3 if tier == "quick" else 4)))]
    # the first rendering never uses from_.any(): explicit transitions from every non-final state
    styles[0]["trans"] = [d for d in styles[0]["trans"] if d["how"] != "any"] + [{"k": [k], "how": "kwstr"} for d in styles[0]["trans"] if d["how"] == "any" for k in d["k"]]
    styles[0]["trans"].sort(key=lambda d: d["k"][0])
    styles[0].pop("extend", None)
    return {"spec": spec, "cfg": cfg, "history": hist, "styles": styles}


def strategy(tier):
    return cases(tier)


def budget(tier):
    return 16 * 80 if tier == "quick" else 16 * 1200
