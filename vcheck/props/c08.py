"""C08 — guards: cond/unless conjunction and Python-faithful boolean expressions (DESIGN.md 4/C08)."""
import itertools
import functools
import types
import warnings

from hypothesis import strategies as st

from statemachine import State, StateMachine
from statemachine.exceptions import InvalidDefinition, TransitionNotAllowed

from ..scenario import outcome

PROPERTY = "C08"
LEVEL = "exploration"
RULE = (
    "positive cases: an expression AST is drawn from the documented grammar (names, not/!, and/^, or/v, parentheses, True/False/None, ints, floats, "
    "quote-delimited strings, the six comparison operators, chained comparisons, boolean sub-expressions as comparison operands) and printed twice: "
    "in the library dialect with a drawn spelling per operator, drawn optional whitespace (x>=1, !a, (a)and b) and redundant parentheses, and as "
    "canonical Python. Names come from a pool built to defeat lexical shortcuts (value, avb, vv, nova, nota, andy, order, notify, _x, is_v ...) and "
    "are provided as method / property / plain attribute on machine, model or a listener (boolean-position names possibly on two providers). The "
    "expression(s) are used as cond= and/or unless= entries (1-3 entries); for >=5 drawn valuations (any truthy/falsy objects in boolean positions, "
    "mutually comparable numbers under comparisons, one in ten replaced by an unorderable value - where Python raises TypeError the send must raise it too and fire nothing) the transition must fire iff all cond entries are truthy and all unless entries falsy under "
    "Python's eval of the canonical text, and - single entry - the sequence of observable name reads (consecutive duplicates collapsed) must equal "
    "Python's. negative cases: unbalanced / truncated / empty strings, unsupported constructs (+, is, in, unary minus, calls, attribute access, "
    "subscripts, ternary, lambda, walrus ...) and unknown names (also on a later instance of a class whose earlier instance had the names) must raise InvalidDefinition from StateMachine() - no other exception type, and "
    "never at send time. non-trivial = expression with >=2 different operators, or a chained comparison, or an operator written without surrounding "
    "whitespace, or a valuation where short-circuit/precedence matters (flat left-to-right evaluation would differ)"
)
ASSUMPTIONS = [
    "names used under a comparison have a single provider (how several providers combine in a value position is not documented)",
    "coroutine methods are not used as operands of compound expressions (finding K1)",
    "the same expression text is never used both as cond and unless of one transition (finding K8)",
    "Python's own eval() of the canonical rendering is the trusted oracle",
]
BOOL_NAMES = ["a", "b", "avb", "nota", "andy", "notify", "_x", "orb", "is_v", "v_", "nor"]
NUM_NAMES = ["x", "value", "vv", "v1", "nova", "order", "y"]
ANY_VALUES = [True, False, 0, 1, "", "s", [], [0], None, 2.5, 0.0, {}, {"k": 1}, {"$t": []}, {"$t": [0]}]
NUM_VALUES = [0, 1, 2, 10, -1, 1.5, 0.0, True, False, 3]
UNORDERABLE = [None, "s", "1", [0], {"$t": [0]}, 2.5]
UID = itertools.count()
PREC = {"or": 1, "and": 2, "not": 3, "cmp": 4, "name": 5, "const": 5}


# ------------------------------------------------------------------------------------------ AST strategy and printers
def atom(names, consts):
    return st.one_of(st.tuples(st.just("name"), st.sampled_from(names)), st.tuples(st.just("name"), st.sampled_from(names)),
                     st.tuples(st.just("const"), st.sampled_from(consts)))


NUM_CONSTS = ["0", "1", "2", "10", "1.5", "0.0", "True", "False", "3"]
ANY_CONSTS = NUM_CONSTS + ["None", "'s'", '"t"', "''", "True", "False", "'a v b'", '"x!"', "'^'", "'not'", "' and '", "'1'"]


def num_expr():
    """sub-expression whose value is always a number/bool (usable under an ordering comparison)"""
    base = atom(NUM_NAMES, NUM_CONSTS)
    return st.recursive(
        base,
        lambda ch: st.one_of(
            st.tuples(st.just("not"), ch),
            st.tuples(st.just("and"), st.lists(ch, min_size=2, max_size=3)),
            st.tuples(st.just("or"), st.lists(ch, min_size=2, max_size=3)),
        ),
        max_leaves=4,
    )


def cmp_expr():
    ops = st.sampled_from(["==", "!=", "<", "<=", ">", ">="])
    simple = st.tuples(st.just("cmp"), st.lists(num_expr(), min_size=2, max_size=2), st.lists(ops, min_size=1, max_size=1))
    # the middle operand of a chained comparison is read twice by the library (pinned by its test-suite; reading once is an
    # xfail TODO there): it is kept atomic so that collapsing consecutive duplicate reads makes the sequences comparable
    chained = st.tuples(st.just("cmp"), st.tuples(num_expr(), atom(NUM_NAMES, NUM_CONSTS), num_expr()).map(list), st.lists(ops, min_size=2, max_size=2))
    return st.one_of(simple, simple, chained)


STR_NAMES = ["label", "sv"]
STR_CONSTS = ["'a v b'", '"x!"', "'^'", "'s'", "''", "'1'", "'not a'", '"a ^ b"', "'a  b'", "'a\tb'", "' s'"]
STR_VALUES = ["a v b", "x!", "^", "s", "", "1", "not a", "a ^ b", "a  or  b", "a  b", "a b", "a\tb", " s"]


def str_cmp():
    """(in)equality between string-valued names and string literals that contain the operator spellings"""
    side = st.one_of(st.tuples(st.just("name"), st.sampled_from(STR_NAMES)), st.tuples(st.just("const"), st.sampled_from(STR_CONSTS)))
    return st.tuples(st.just("cmp"), st.tuples(st.tuples(st.just("name"), st.sampled_from(STR_NAMES)), side).map(list), st.lists(st.sampled_from(["==", "!="]), min_size=1, max_size=1))


def bool_expr():
    base = st.one_of(atom(BOOL_NAMES + NUM_NAMES, ANY_CONSTS), atom(BOOL_NAMES, ANY_CONSTS), cmp_expr(), cmp_expr(), str_cmp())
    return st.recursive(
        base,
        lambda ch: st.one_of(
            st.tuples(st.just("not"), ch),
            st.tuples(st.just("and"), st.lists(ch, min_size=2, max_size=3)),
            st.tuples(st.just("or"), st.lists(ch, min_size=2, max_size=3)),
            st.tuples(st.just("and"), st.lists(ch, min_size=2, max_size=2)),
        ),
        max_leaves=8,
    )


def tolist(t):
    return [tolist(x) if isinstance(x, (tuple, list)) else x for x in t]


def canonical(node):
    """Canonical Python text (fully parenthesised where precedence requires)."""
    k = node[0]
    if k in ("name", "const"):
        return node[1]

    def par(ch, parent):
        s = canonical(ch)
        return f"({s})" if PREC[ch[0]] <= parent else s

    if k == "not":
        return "not " + par(node[1], 2 if node[1][0] == "not" else 3)
    if k in ("and", "or"):
        return f" {k} ".join(par(c, PREC[k]) for c in node[1])
    out = par(node[1][0], 4)
    for op, rhs in zip(node[2], node[1][1:]):
        out += f" {op} " + par(rhs, 4)
    return out


class Drawer:
    """Printing in the library dialect makes choices (spelling, whitespace, redundant parentheses) drawn by Hypothesis."""

    def __init__(self, draw, tight):
        self.draw, self.tight, self.tight_used = draw, tight, False

    def coin(self, p=5):
        return self.draw(st.integers(0, 9)) < p

    def sp(self):
        if self.tight and self.coin(7):
            self.tight_used = True
            return ""
        return " "

    def dialect(self, node):
        k = node[0]
        if k in ("name", "const"):
            return f"({node[1]})" if self.coin(1) else node[1]

        def par(ch, parent):
            s = self.dialect(ch)
            if PREC[ch[0]] <= parent or (self.coin(1) and not s.startswith("(")):
                return "(" + s + ")"
            return s

        if k == "not":
            inner = par(node[1], 2 if node[1][0] == "not" else 3)
            if self.coin(5):
                if not self.coin(3):
                    self.tight_used = True
                    return "!" + inner
                return "! " + inner
            if inner.startswith("(") and self.tight and self.coin(5):
                self.tight_used = True
                return "not" + inner
            return "not " + inner
        if k in ("and", "or"):
            parts = [par(c, PREC[k]) for c in node[1]]
            out = parts[0]
            for p in parts[1:]:
                if self.coin(5):
                    if k == "and":
                        out = out + self.sp() + "^" + self.sp() + p
                    else:
                        out = out + " v " + p  # 'v' is a word: it needs its boundaries
                else:
                    left = "" if (self.tight and out.endswith(")") and self.coin(6)) else " "
                    right = "" if (self.tight and p.startswith("(") and self.coin(6)) else " "
                    if not left or not right:
                        self.tight_used = True
                    out = out + left + k + right + p
            return out
        out = par(node[1][0], 4)
        for op, rhs in zip(node[2], node[1][1:]):
            out = out + self.sp() + op + self.sp() + par(rhs, 4)
        return out


def names_of(node, under_cmp=False, acc=None):
    acc = acc if acc is not None else {}
    k = node[0]
    if k == "name":
        acc[node[1]] = acc.get(node[1], False) or under_cmp
    elif k == "not":
        names_of(node[1], under_cmp, acc)
    elif k in ("and", "or"):
        for c in node[1]:
            names_of(c, under_cmp, acc)
    elif k == "cmp":
        for c in node[1]:
            names_of(c, True, acc)
    return acc


def ops_of(node, acc=None):
    acc = acc if acc is not None else []
    k = node[0]
    if k == "not":
        acc.append("not")
        ops_of(node[1], acc)
    elif k in ("and", "or"):
        acc.append(k)
        for c in node[1]:
            ops_of(c, acc)
    elif k == "cmp":
        acc.extend(node[2])
        if len(node[2]) > 1:
            acc.append("chain")
        for c in node[1]:
            ops_of(c, acc)
    return acc


def flat_eval(node, env):
    """Left-to-right evaluation without precedence/short-circuit, used only to label valuations where those matter."""
    py = canonical(node).replace("(", "").replace(")", "")
    toks = py.split()
    try:
        return bool(eval(" ".join(toks), {}, dict(env)))
    except Exception:
        return None


# ------------------------------------------------------------------------------------------ system under test
def dec(v):
    from ..core import dec as d

    return d(v)


class Holder:
    def __init__(self):
        self.val = {}
        self.reads = []


def build(entries_cond, entries_unless, providers, kinds, decl="to", falsy=()):
    """providers: name -> [prov...]; kinds: (name, prov) -> method|property|attr|async.  Returns (cls, objs factory)."""
    uid = next(UID)
    Hd = Holder()

    def mk(name, prov, kind):
        key = f"{name}@{prov}"
        if kind == "method":
            def f(self):
                Hd.reads.append(name)
                return Hd.val.get(key)
        elif kind == "async":
            async def f(self):
                Hd.reads.append(name)
                return Hd.val.get(key)
        elif kind == "classmethod":
            def f(cls):
                Hd.reads.append(name)
                return Hd.val.get(key)

            f.__name__ = name
            f.__qualname__ = f"E{uid}_{prov}.{name}"
            return classmethod(f)
        elif kind == "partialmethod":
            def f(self, flag):
                Hd.reads.append(name)
                return Hd.val.get(key) if flag else None

            f.__name__ = name
            f.__qualname__ = f"E{uid}_{prov}.{name}"
            return functools.partialmethod(f, True)
        else:
            def fget(self):
                Hd.reads.append(name)
                return Hd.val.get(key)

            f = property(fget)
        tgt = f.fget if isinstance(f, property) else f
        tgt.__name__ = name
        tgt.__qualname__ = f"E{uid}_{prov}.{name}"
        return f

    ns = {p: {} for p in ("machine", "model", "l0")}
    attrs = []
    for name, provs in providers.items():
        for prov in provs:
            kind = kinds[f"{name}@{prov}"]
            if kind == "attr":
                attrs.append((name, prov))
                ns[prov][name] = None
            else:
                ns[prov][name] = mk(name, prov, kind)
    s1, s2 = State(initial=True), State()
    kw = {}
    if entries_cond:
        kw["cond"] = entries_cond if len(entries_cond) > 1 else entries_cond[0]
    if entries_unless:
        kw["unless"] = entries_unless if len(entries_unless) > 1 else entries_unless[0]
    go = {"to": lambda: s1.to(s2, **kw), "from": lambda: s2.from_(s1, **kw), "any": lambda: s2.from_.any(**kw)}[decl]()
    body = dict(ns["machine"], s1=s1, s2=s2, go=go, back=s2.to(s1))
    cls = types.new_class(f"E{uid}", (StateMachine,), {}, lambda d: d.update(body))
    # provider objects may be falsy (an empty container-like domain object / recorder): they provide their names all the same
    Model = type(f"E{uid}_model", (), dict(ns["model"], **({"__len__": lambda self: 0} if "model" in falsy else {})))
    L0 = type(f"E{uid}_l0", (), dict(ns["l0"], **({"__bool__": lambda self: False} if "l0" in falsy else {})))
    return cls, Model, L0, Hd, attrs


def set_values(Hd, objs, attrs, env_by_key):
    Hd.val = dict(env_by_key)
    for name, prov in attrs:
        setattr(objs[prov], name, env_by_key[f"{name}@{prov}"])


def python_truth(py, env, tracked):
    reads = []

    class NS(dict):
        def __getitem__(self, k):
            if k in tracked:
                reads.append(k)
            return dict.__getitem__(self, k)

    return bool(eval(py, {"__builtins__": {}}, NS(env))), reads


def collapse(seq):
    out = []
    for x in seq:
        if not out or out[-1] != x:
            out.append(x)
    return out


def run_callables(case):
    """cond/unless entries given as callables: passed directly (cond=[f, g]) or attached with the @event.cond / @event.unless
    decorators to an event that has SEVERAL transitions; every transition of the event must honour every entry."""
    Hd = Holder()
    fired = []
    uid = next(UID)
    names_c, names_u, how = case["cond_names"], case["unless_names"], case["how"]
    fns = {}
    for n in names_c + names_u:
        def f(self, _n=n):
            Hd.reads.append(_n)
            return Hd.val[_n]
        f.__name__ = n
        f.__qualname__ = f"CG{uid}.{n}"
        fns[n] = f
    s1, s2, s3 = State(initial=True), State(), State()
    body = {"s1": s1, "s2": s2, "s3": s3}
    with warnings.catch_warnings():
        warnings.simplefilter("ignore")
        if how == "kwargs":
            kw = {}
            if names_c:
                kw["cond"] = [fns[n] for n in names_c]
            if names_u:
                kw["unless"] = [fns[n] for n in names_u]
            go = s1.to(s2, **kw) | s2.to(s3, **kw) | s3.to(s3, **kw)
        else:
            go = s1.to(s2) | s2.to(s3) | s3.to(s3)
            for n in names_c:
                go.cond(fns[n])
            for n in names_u:
                go.unless(fns[n])
        body.update(fns)
        body["go"] = go
        body["reset"] = s2.to(s1) | s3.to(s1) | s1.to(s1)
        body["after_go"] = lambda self: fired.append(1)
        try:
            cls = types.new_class(f"CG{uid}", (StateMachine,), {}, lambda d: d.update(body))
            sm = cls(allow_event_without_transition=True)
        except Exception as e:
            return outcome(False, "C08:crash-at-instantiation", f"callable guards {names_c} / unless {names_u} ({how}): {type(e).__name__}: {e}")
    labels = {"callable-guards:" + how}
    for env in case["valuations"]:
        Hd.val = {k: dec(v) for k, v in env.items()}
        want = all(bool(Hd.val[n]) for n in names_c) and not any(bool(Hd.val[n]) for n in names_u)
        for start in ("s1", "s2", "s3"):
            sm.current_state = getattr(sm, start)
            del fired[:]
            try:
                sm.send("go")
            except Exception as e:
                return outcome(False, "C08:crash-at-send", f"callable guards ({how}) from {start}: {type(e).__name__}: {e}", labels=labels)
            if bool(fired) != want:
                return outcome(False, "C08:wrong-truth-value", f"callable guards cond={names_c} unless={names_u} attached with {how}: from {start} with {Hd.val!r} fired={bool(fired)}, expected {want}", labels=labels)
    return outcome(True, nontrivial=bool(names_u) or len(names_c) > 1, labels=labels, stats={"valuations": len(case["valuations"])})


def run_case(case):
    if case["kind"] == "negative":
        return run_negative(case)
    if case["kind"] == "callables":
        return run_callables(case)
    cond, unless = case.get("cond", []), case.get("unless", [])
    providers, kinds = case["providers"], case["kinds"]
    labels = set()
    with warnings.catch_warnings():
        warnings.simplefilter("ignore")
        try:
            cls, Model, L0, Hd, attrs = build([e["lib"] for e in cond], [e["lib"] for e in unless], providers, kinds, case.get("decl", "to"), case.get("falsy", ()))
            labels.add("declared-with:" + case.get("decl", "to"))
            for p_ in case.get("falsy", ()):
                labels.add("falsy-provider:" + p_)
            objs = {"model": Model(), "l0": L0()}
            sm = cls(objs["model"], listeners=[objs["l0"]], allow_event_without_transition=True)
            objs["machine"] = sm
        except InvalidDefinition as e:
            return outcome(False, "C08:rejected-valid", f"valid expression(s) {[e['lib'] for e in cond + unless]!r} rejected at instantiation: {e}")
        except Exception as e:
            return outcome(False, "C08:crash-at-instantiation", f"{[e['lib'] for e in cond + unless]!r}: {type(e).__name__}: {e}")
        is_async = any(k == "async" for k in kinds.values())
        if is_async:
            set_values(Hd, objs, attrs, {k: False for k in kinds})
            sm.activate_initial_state()
        tracked = {n for n, provs in providers.items() if all(kinds[f"{n}@{p}"] != "attr" for p in provs)}
        nontrivial = False
        all_ops = [o for e in cond + unless for o in ops_of(e["tree"])]
        if len(set(all_ops) - {"chain"}) >= 2 or "chain" in all_ops or any(e.get("tight") for e in cond + unless):
            nontrivial = True
        for o in set(all_ops):
            labels.add("op:" + o)
        if any(e.get("tight") for e in cond + unless):
            labels.add("tight-whitespace")
        for vi, envj in enumerate(case["valuations"]):
            env_by_key = {k: dec(v) for k, v in envj.items()}
            set_values(Hd, objs, attrs, env_by_key)
            # value of a name = conjunction over its providers (all must hold); single provider: the value itself
            env = {}
            for n, provs in providers.items():
                vals = [env_by_key[f"{n}@{p}"] for p in provs]
                v = vals[0]
                for w in vals[1:]:
                    v = v and w
                env[n] = v
            try:
                want = True
                py_reads = []
                for e in cond:
                    t, r = python_truth(e["py"], env, tracked)
                    py_reads += r
                    if not t:
                        want = False
                        break
                if want:
                    for e in unless:
                        t, r = python_truth(e["py"], env, tracked)
                        py_reads += r
                        if t:
                            want = False
                            break
            except TypeError:
                want = "TypeError"  # Python itself refuses the comparison: so must the guard, at the same point of the evaluation
            except Exception as ex:
                from ..core import HarnessError

                raise HarnessError(f"python oracle failed on {[e['py'] for e in cond + unless]}: {ex!r}")
            if sm.current_state.id != "s1":
                sm.current_state = sm.s1
            Hd.reads.clear()
            try:
                sm.send("go")
            except Exception as ex:
                if want == "TypeError" and isinstance(ex, TypeError) and sm.current_state.id == "s1":
                    labels.add("python-raises-TypeError")
                    nontrivial = True
                    continue
                return outcome(False, "C08:crash-at-send", f"{[e['lib'] for e in cond + unless]!r} with {env!r}: {type(ex).__name__}: {ex}", labels=labels)
            got = sm.current_state.id == "s2"
            if want == "TypeError":
                return outcome(False, "C08:wrong-truth-value", f"cond={[e['lib'] for e in cond]!r} unless={[e['lib'] for e in unless]!r} (python: {[e['py'] for e in cond + unless]!r}) with {env!r}: Python raises TypeError (unorderable operands), the guard answered and fired={got}", labels=labels)
            if got != want:
                return outcome(False, "C08:wrong-truth-value", f"cond={[e['lib'] for e in cond]!r} unless={[e['lib'] for e in unless]!r} (python: {[e['py'] for e in cond + unless]!r}) with {env!r}: fired={got}, Python says {want}", labels=labels)
            if len(cond) + len(unless) == 1 and all(len(p) == 1 for p in providers.values()):
                lib_reads = collapse([r for r in Hd.reads if r in tracked])
                if lib_reads != collapse(py_reads):
                    return outcome(False, "C08:evaluation-order", f"{(cond + unless)[0]['lib']!r} with {env!r}: names read {lib_reads}, Python reads {collapse(py_reads)}", labels=labels)
                labels.add("reads-compared")
            for e in cond + unless:
                try:
                    f = flat_eval(e["tree"], env)
                    differs = f is not None and f != python_truth(e["py"], env, ())[0]
                except TypeError:
                    continue  # an entry that was short-circuited away and cannot be evaluated on its own (unorderable operands)
                if differs:
                    nontrivial = True
                    labels.add("precedence-or-short-circuit-matters")
        if len(cond) + len(unless) > 1:
            labels.add("entries:%d" % (len(cond) + len(unless)))
        if unless:
            labels.add("unless")
        if any(len(p) > 1 for p in providers.values()):
            labels.add("multi-provider-name")
        for k in set(kinds.values()):
            labels.add("kind:" + k)
        return outcome(True, nontrivial=nontrivial, labels=labels, stats={"valuations": len(case["valuations"])})


def run_second_instance(case):
    """The names of an expression are looked up per instance: a first instance whose model provides them must not make a
    later instance with a bare model acceptable."""
    expr = case["expr"]
    labels = {"negative:second-instance"}
    body = {"s1": State(initial=True), "s2": State()}
    with warnings.catch_warnings():
        warnings.simplefilter("ignore")
        body["go"] = body["s1"].to(body["s2"], **{case.get("slot", "cond"): expr})
        body["back"] = body["s2"].to(body["s1"])
        cls = types.new_class(f"N{next(UID)}", (StateMachine,), {}, lambda d: d.update(body))
        Good = type("Good", (), {n: 1 for n in BOOL_NAMES + NUM_NAMES + STR_NAMES})
        Bare = type("Bare", (), {})
        try:
            for _ in range(case.get("good_first", 1)):
                cls(Good(), allow_event_without_transition=True)
        except InvalidDefinition as e:
            return outcome(False, "C08:rejected-valid", f"{expr!r} with every name on the model was rejected: {e}", labels=labels)
        try:
            sm = cls(Bare(), allow_event_without_transition=True)
        except InvalidDefinition:
            return outcome(True, nontrivial=True, labels=labels)
        except Exception as e:
            return outcome(False, "C08:wrong-exception-type", f"{expr!r}: second instance with a bare model raised {type(e).__name__}: {e}", labels=labels)
        return outcome(False, "C08:accepted-invalid", f"{expr!r}: an instance whose model provides none of the names was accepted after an earlier instance of the class had them", labels=labels)


def run_negative(case):
    if case["why"] == "second-instance":
        return run_second_instance(case)
    expr = case["expr"]
    labels = {"negative:" + case["why"]}
    body = {"s1": State(initial=True), "s2": State()}
    with warnings.catch_warnings():
        warnings.simplefilter("ignore")
        try:
            body["go"] = body["s1"].to(body["s2"], **{case.get("slot", "cond"): expr})
            body["back"] = body["s2"].to(body["s1"])
            for n in BOOL_NAMES + NUM_NAMES + STR_NAMES:
                body[n] = 1
            cls = types.new_class(f"N{next(UID)}", (StateMachine,), {}, lambda d: d.update(body))
        except InvalidDefinition:
            return outcome(True, nontrivial=True, labels=labels | {"rejected-at-class-definition"})
        except Exception as e:
            return outcome(False, "C08:wrong-exception-type", f"{expr!r} ({case['why']}): {type(e).__name__}: {e} while defining the class", labels=labels)
        try:
            sm = cls(allow_event_without_transition=case.get("allow", True))
        except InvalidDefinition:
            return outcome(True, nontrivial=True, labels=labels)
        except Exception as e:
            return outcome(False, "C08:wrong-exception-type", f"{expr!r} ({case['why']}): StateMachine() raised {type(e).__name__}: {e} instead of InvalidDefinition", labels=labels)
        if case.get("lenient"):
            # not in the documented grammar, but harmless if it evaluates as Python does
            try:
                want = bool(eval(case["lenient"], {"__builtins__": {}}, {n: 1 for n in BOOL_NAMES + NUM_NAMES + STR_NAMES}))
                sm.send("go")
                got = sm.current_state.id == "s2"
            except Exception as e:
                return outcome(False, "C08:late-failure", f"{expr!r} accepted at instantiation but failed when the event arrived: {type(e).__name__}: {e}", labels=labels)
            if got != want:
                return outcome(False, "C08:wrong-truth-value", f"lenient {expr!r}: fired={got}, Python says {want}", labels=labels)
            return outcome(True, nontrivial=True, labels=labels | {"lenient-accepted"})
        try:
            sm.send("go")
            late = "no error at all"
        except Exception as e:
            late = f"{type(e).__name__} at send time: {e}"
        return outcome(False, "C08:accepted-invalid", f"{expr!r} ({case['why']}) was not rejected at instantiation ({late})", labels=labels)


# ------------------------------------------------------------------------------------------ strategies
UNSUPPORTED = ["x + y", "x is y", "x in y", "-x > 0", "x if y else a", "lambda: x", "f(x) or y", "x.y and a", "x[0]", "x ** 2 > 1", "x | y", "(x := 1)",
               "a and b or", "a and", "or a", "a b", "a, b", "x > > 1", "a &&& b", "x = 1", "not", "!", "^ a", "a ^", "a v", "~a", "x % 2 == 0", "[a]", "{a}",
               "x <> y", "a and (b", "a) and b", "((a)", "'unterminated", "x == 'a", "a ? b : x"]


@st.composite
def entry(draw):
    tree = tolist(draw(bool_expr()))
    tight = draw(st.integers(0, 9)) < 4
    d = Drawer(draw, tight)
    lib = d.dialect(tree)
    return {"tree": tree, "lib": lib, "py": canonical(tree), "tight": d.tight_used}


@st.composite
def positive(draw, tier):
    n_c = draw(st.sampled_from([1, 1, 1, 0, 2]))
    n_u = draw(st.sampled_from([0, 0, 1, 1, 2])) if n_c else 1
    cond = [draw(entry()) for _ in range(n_c)]
    unless = [draw(entry()) for _ in range(n_u)]
    # two entries of one transition that denote the same expression (up to parentheses / constant spelling) collide in the
    # library's de-duplication (finding K8 family): keep one of them
    seen, keep_c, keep_u = set(), [], []
    for lst, keep in ((cond, keep_c), (unless, keep_u)):
        for e in lst:
            key = e["py"].replace("(", "").replace(")", "")
            if key not in seen:
                seen.add(key)
                keep.append(e)
    cond, unless = keep_c, keep_u
    used = {}
    for e in cond + unless:
        for n, c in names_of(e["tree"]).items():
            used[n] = used.get(n, False) or c
    providers, kinds = {}, {}
    for n, under_cmp in sorted(used.items()):
        provs = [draw(st.sampled_from(["machine", "model", "l0"]))]
        if not under_cmp and n in BOOL_NAMES and draw(st.integers(0, 9)) < 2:
            provs = draw(st.sampled_from([["machine", "model"], ["machine", "l0"], ["model", "l0"]]))
        providers[n] = provs
        for p in provs:
            kinds[f"{n}@{p}"] = draw(st.sampled_from(["method", "method", "property", "attr", "classmethod", "partialmethod"]))
    vals = []
    for _ in range(draw(st.integers(5, 7 if tier == "quick" else 10))):
        env = {}
        for n, provs in providers.items():
            for p in provs:
                env[f"{n}@{p}"] = draw(st.sampled_from(STR_VALUES if n in STR_NAMES else NUM_VALUES if (used[n] or n in NUM_NAMES) else ANY_VALUES))
                if used[n] and draw(st.integers(0, 9)) == 0:
                    # "values of any type": an ordering comparison of unorderable operands raises TypeError in Python, and the
                    # expression "evaluates exactly as Python evaluates it" (added after round 6, C08k)
                    env[f"{n}@{p}"] = draw(st.sampled_from(UNORDERABLE))
        vals.append(env)
    return {"kind": "positive", "cond": cond, "unless": unless, "providers": providers, "kinds": kinds, "valuations": vals,
            "decl": draw(st.sampled_from(["to", "to", "from", "any"])), "falsy": [p for p in ("model", "l0") if draw(st.integers(0, 5)) == 0]}


@st.composite
def negative(draw, tier):
    why = draw(st.sampled_from(["unsupported", "unsupported", "unbalanced", "truncated", "unknown-name", "empty", "lenient", "second-instance"]))
    slot = draw(st.sampled_from(["cond", "cond", "unless"]))
    allow = draw(st.booleans())
    if why == "unsupported":
        return {"kind": "negative", "why": why, "expr": draw(st.sampled_from(UNSUPPORTED)), "slot": slot, "allow": allow}
    e = draw(entry())
    lib = e["lib"]
    if why == "second-instance":
        if not names_of(e["tree"]):
            lib = lib + " and a"
        return {"kind": "negative", "why": why, "expr": lib, "slot": slot, "good_first": draw(st.integers(1, 2))}
    if why == "unbalanced":
        ok_pos = [i for i in range(len(lib) + 1) if lib[:i].count("'") % 2 == 0 and lib[:i].count('"') % 2 == 0]
        pos = draw(st.sampled_from(ok_pos))
        return {"kind": "negative", "why": why, "expr": lib[:pos] + draw(st.sampled_from(["(", ")"])) + lib[pos:], "slot": slot, "allow": allow}
    if why == "truncated":
        return {"kind": "negative", "why": why, "expr": lib + draw(st.sampled_from([" and", " or", " ^", " v", " ==", " not", " <", " (", " !", " and not"])), "slot": slot, "allow": allow}
    if why == "unknown-name":
        extra = draw(st.sampled_from(["zz_unknown", "v", "vvv", "av", "nope", "A", "andyy", "_"]))
        op = draw(st.sampled_from([" and ", " or ", " ^ ", " v "]))
        expr = draw(st.sampled_from([lib + op + extra, extra + op + lib, extra, "not " + extra, "!" + extra, extra + " == 1"]))
        return {"kind": "negative", "why": why, "expr": expr, "slot": slot, "allow": allow}
    if why == "empty":
        return {"kind": "negative", "why": why, "expr": draw(st.sampled_from(["", " ", "   ", "\t", "\n"])), "slot": slot, "allow": allow}
    # lenient: outside the documented grammar, either rejected or Python-faithful
    py = e["py"]
    form = draw(st.sampled_from(["lead", "trail", "both"]))
    expr = {"lead": " " + lib, "trail": lib + " ", "both": "  " + lib + "  "}[form]
    return {"kind": "negative", "why": "lenient", "expr": expr, "lenient": py, "slot": "cond", "allow": True}


FUZZ_RUNS = {"thorough": 1500}  # libFuzzer runs per shard of the coverage-guided sub-engine (vcheck/fuzz.py)


@st.composite
def callables(draw, tier):
    names = draw(st.lists(st.sampled_from(BOOL_NAMES), min_size=1, max_size=3, unique=True))
    k = draw(st.integers(0, len(names)))
    vals = [{n: draw(st.sampled_from(ANY_VALUES)) for n in names} for _ in range(5)]
    return {"kind": "callables", "cond_names": names[:k], "unless_names": names[k:], "how": draw(st.sampled_from(["kwargs", "decorators", "decorators"])), "valuations": vals}


def strategy(tier):
    return st.one_of(positive(tier), positive(tier), positive(tier), positive(tier), negative(tier), callables(tier))


def budget(tier):
    return 16 * 300 if tier == "quick" else 16 * 3000
