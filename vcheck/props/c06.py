"""C06 — concurrent senders: mutual exclusion, exactly-once, nothing stranded (DESIGN.md 4/C06)."""
import asyncio
import threading
import warnings
from collections import Counter

from hypothesis import strategies as st

from statemachine import State, StateMachine
from statemachine.exceptions import TransitionNotAllowed

from ..core import HarnessError
from ..scenario import outcome
from ..sched import GateSched, ThreadSched

PROPERTY = "C06"
LEVEL = "exploration"
RULE = (
    "machines in which every event is accepted (1-3 state cycle), callbacks with explicit yield points and optional nested sends; 2-4 senders x "
    "1-3 events. THREADS (sync callbacks, run-to-completion): the harness owns the schedule - one runnable OS thread at a time, a numbered step at "
    "every source line of the statemachine package (sys.settrace) and at every yield point inside callbacks; a schedule is a list of (step, thread) "
    "pre-emptions, senders yield voluntarily between their sends. Enumerated completely (coverage.exhaustive): every single pre-emption at any line of the "
    "package and every pair of pre-emptions at lines of the dispatch code (engines/*.py, event.py, send) for 2 senders sending (1,1), (1,2), (2,1) "
    "events (1,1) with yielding listener callbacks and (1,1) with a listener attached from inside a callback [thorough: all pairs over every line for (1,1), plus (2,2) and nested sends]; Hypothesis draws schedules with <=4 pre-emptions for 2-4 senders, biased to steps inside the queue / "
    "processing-loop code. ASYNCIO (coroutine callbacks): every callback awaits a gate; a controller releases waiting gates in a generated order "
    "once all runnable tasks are blocked; senders await the event directly or create the coroutine first and await it later; every gate order of the small configurations (2 tasks x 1 event, with deferred await / nested send; more in thorough) is enumerated, larger ones are drawn. History invariants: "
    "(a) begin/end markers of different events never interleave; (b) the multiset of processed events equals the multiset sent (incl. nested); "
    "(c) each sender's events are processed in the order it sent them; (d) when all senders have returned nothing is left unprocessed and the state "
    "is the start state advanced by the number of events. Refusal mode (asyncio, round 6): 1-2 sends are an event without any transition on a strict machine - TransitionNotAllowed reaches "
    "whoever drains, the processed events are a sub-multiset of the sent ones, and one more event sent after all senders returned must be the only thing processed. non-trivial = a schedule in which an event was processed by another thread/task than its "
    "sender (the sender enqueued while another one held the processing section)"
)
ASSUMPTIONS = [
    "pre-emption granularity is a source line of the package: races inside one line are not explored (deque.append/popleft and Lock.acquire/release are atomic under the GIL)",
    "schedules are those of the harness' cooperative scheduler, not of the OS; free-threaded builds are out of scope",
    "liveness is checked as 'nothing left when all senders returned'",
]


# ------------------------------------------------------------------------------------------ machines
class Extra:
    """a listener attached from inside a callback while other senders are waiting"""

    def on_enter_state(self):
        pass


def shape(cycle, ladder):
    """States and events of the subject.  cycle mode: `tick` advances a ring of `cycle` states (every event is accepted in every
    state).  ladder mode: sender 0 sends e0, e1, ... where e_k is only valid in state s_k (each one is enabled by the one before it:
    the per-sender FIFO guarantee makes every one of them valid when its turn comes), `tick` is a self-loop in every state."""
    ns = {}
    n = ladder + 1 if ladder else cycle
    S = [State(initial=(i == 0)) for i in range(n)]
    for i, s in enumerate(S):
        ns[f"s{i}"] = s
    if ladder:
        tick = S[0].to.itself()
        for i in range(1, n):
            tick = tick | S[i].to.itself()
        for k in range(ladder):
            ns[f"e{k}"] = S[k].to(S[k + 1])
        events = ["tick"] + [f"e{k}" for k in range(ladder)]
    else:
        tick = S[0].to(S[1 % cycle])
        for i in range(1, cycle):
            tick = tick | S[i].to(S[(i + 1) % cycle])
        events = ["tick"]
    ns["tick"] = tick
    return ns, events


def event_of(case, w, k):
    return f"e{k}" if case.get("ladder") and w == 0 else "tick"


def tag_of(case, w, k):
    """what the sender passes along: normally its own (who, k); in `untagged` mode all events are indistinguishable"""
    return (-1, -1) if case.get("untagged") else (w, k)


def build_sync(cycle, nested, cb_points, sched, listener, attach=False, ladder=0, allow=False):
    log = []
    nest = {tuple(x) for x in nested}

    def before(self, who, k):
        log.append(("begin", who, k, threading.current_thread()._wid if hasattr(threading.current_thread(), "_wid") else None))
        for _ in range(cb_points):
            sched.point()

    def after(self, who, k):
        for _ in range(cb_points):
            sched.point()
        log.append(("end", who, k, None))

    ns, events = shape(cycle, ladder)
    Rec = type("Rec", (), {f"{grp}_{ev}": fn for ev in events for grp, fn in (("before", before), ("after", after))})

    def on_any(self, who, k):
        sched.point()
        if attach and (who, k) == (0, 0):
            self.add_listener(Extra())  # attaching a listener does not open the processing section to other senders
            sched.point()
        if (who, k) in nest:
            r = self.send("tick", who=who, k=("n", k))
            if r is not None:
                log.append(("nested-returned", who, k, r))

    for ev in events:
        ns[f"on_{ev}"] = on_any
    if not listener:
        ns.update({k_: v for k_, v in vars(Rec).items() if k_.startswith(("before_", "after_"))})
    import types

    cls = types.new_class("Conc", (StateMachine,), {}, lambda d: d.update(ns))
    kw = {"allow_event_without_transition": True} if allow else {}
    sm = cls(listeners=[Rec()], **kw) if listener else cls(**kw)
    return sm, log


def check_history(log, sent, cycle, state_id, stranded_hint="", ladder=0, subset=False):
    """subset=True (refusal mode): events queued behind a refused one are discarded together with it (the engine empties its queue
    when an event fails), so the processed events are a sub-multiset of the sent ones; everything else is checked as usual."""
    open_ = None
    for kind, w, k, _ in log:
        if kind == "nested-returned":
            return "nested-result", f"a nested send returned {_!r} instead of None"
        if kind == "begin":
            if open_ is not None:
                return "interleaved", f"event {(w, k)} began while event {open_} was still being processed: {[(x[0], x[1], x[2]) for x in log]}"
            open_ = (w, k)
        else:
            if open_ != (w, k):
                return "interleaved", f"event {(w, k)} ended but {open_} was open: {[(x[0], x[1], x[2]) for x in log]}"
            open_ = None
    done = [(w, k) for kind, w, k, _ in log if kind == "end"]
    cd, cs = Counter(done), Counter(sent)
    if subset:
        dup = list((cd - cs).elements())
        if dup:
            return "duplicated", f"sent {sorted(map(str, sent))}; processed more than once / unknown: {dup}"
    elif cd != cs:
        lost = list((cs - cd).elements())
        dup = list((cd - cs).elements())
        return ("stranded" if lost else "duplicated"), f"sent {sorted(map(str, sent))}; never processed: {lost}; processed more than once / unknown: {dup}{stranded_hint}"
    senders = {w for w, _ in sent}
    for w in senders:
        ks = [k for (ww, k) in done if ww == w and not isinstance(k, tuple)]
        if ks != sorted(ks):
            return "order", f"events of sender {w} were processed in the order {ks}"
    exp = f"s{ladder}" if ladder else f"s{(len(done) if subset else len(sent)) % cycle}"
    if state_id != exp:
        return "state", f"final state {state_id}, expected {exp} after {len(done) if subset else len(sent)} events"
    return None


def sent_events(senders, nested, case=None):
    case = case or {}
    return [tag_of(case, w, k) for w, n in enumerate(senders) for k in range(n)] + [(w, ("n", k)) for (w, k) in map(tuple, nested)]


def n_events(case, w):
    return case["ladder"] if case.get("ladder") and w == 0 else case["senders"][w]


# ------------------------------------------------------------------------------------------ threads
def run_threads(case, trace_names=False):
    senders = case["senders"]
    sched = ThreadSched(len(senders), [tuple(x) for x in case.get("schedule", [])], trace_names=trace_names)
    with warnings.catch_warnings():
        warnings.simplefilter("ignore")
        sm, log = build_sync(case.get("cycle", 1), case.get("nested", []), case.get("cb_points", 0), sched, case.get("listener", False), case.get("attach", False),
                             ladder=case.get("ladder", 0), allow=case.get("allow", False))
    returned = {}

    def body(w):
        def f():
            for k in range(senders[w]):
                who, kk = tag_of(case, w, k)
                returned[(w, k)] = sm.send(event_of(case, w, k), who=who, k=kk)
                if k + 1 < senders[w] and case.get("idle", True):
                    sched.idle()
        return f

    sched.run([body(w) for w in range(len(senders))])
    if sched.errors:
        w, e = sched.errors[0]
        return sched, ("sender-exception", f"sender {w} raised {type(e).__name__}: {e}"), log
    bad = check_history(log, sent_events(senders, case.get("nested", []), case), case.get("cycle", 1), sm.current_state.id, ladder=case.get("ladder", 0))
    return sched, bad, log


def contended(log):
    """an event processed by another thread than its sender"""
    return any(kind == "begin" and tid is not None and tid != w for kind, w, k, tid in log)


def run_case(case):
    if case["engine"] == "asyncio":
        return run_async(case)
    sched, bad, log = run_threads(case)
    labels = {"threads", f"senders:{len(case['senders'])}", f"preemptions:{len(case.get('schedule', []))}"}
    if bad:
        return outcome(False, "C06:" + bad[0], f"threads, senders {case['senders']}, schedule {case.get('schedule')}: {bad[1]}", labels=labels)
    nt = contended(log) if not case.get("untagged") else sched.switches > 0
    if nt:
        labels.add("contended")
    for m in ("ladder", "untagged", "allow"):
        if case.get(m):
            labels.add(m)
    return outcome(True, nontrivial=nt, labels=labels, stats={"schedules": 1, "steps": sched.step, "switches": sched.switches, "infeasible": sched.infeasible})


# ------------------------------------------------------------------------------------------ asyncio
def build_async(cycle, nested, sched, ladder=0, allow=False, race_activation=False):
    log = []
    nest = {tuple(x) for x in nested}
    ns, events = shape(cycle, ladder)

    async def before(self, who, k):
        t = asyncio.current_task()
        log.append(("begin", who, k, getattr(t, "_wid", None)))
        await sched.point(("before", who, k))

    async def on_any(self, who, k):
        await sched.point(("on", who, k))
        if (who, k) in nest:
            r = self.send("tick", who=who, k=("n", k))
            if hasattr(r, "__await__"):
                r = await r
            if r is not None:
                log.append(("nested-returned", who, k, r))

    async def after(self, who, k):
        await sched.point(("after", who, k))
        log.append(("end", who, k, None))

    for ev in events:
        ns.update({f"before_{ev}": before, f"on_{ev}": on_any, f"after_{ev}": after})

    if race_activation:
        async def on_enter_s0(self):
            # the initial state's enter callback suspends too: an explicit activation may still be in progress when senders arrive
            await sched.point(("enter-s0",))

        ns["on_enter_s0"] = on_enter_s0
    import types

    cls = types.new_class("AConc", (StateMachine,), {}, lambda d: d.update(ns))
    return cls(**({"allow_event_without_transition": True} if allow else {})), log


def run_async(case):
    senders = case["senders"]
    labels = {"asyncio", f"tasks:{len(senders)}"}

    async def main():
        sched = GateSched(case.get("choices", [0]), cycle=not case.get("exact"))
        with warnings.catch_warnings():
            warnings.simplefilter("ignore")
            sm, log = build_async(case.get("cycle", 1), case.get("nested", []), sched, ladder=case.get("ladder", 0), allow=case.get("allow", False),
                                  race_activation=case.get("activate") == "race")
        if case.get("activate") and case.get("activate") != "race":
            await sm.activate_initial_state()
        styles = case.get("styles", [])

        refuse = {tuple(x) for x in case.get("refuse", [])}
        refusals = []

        async def sender(w):
            for k in range(senders[w]):
                style = styles[w] if w < len(styles) else "await"
                who, kk = tag_of(case, w, k)
                # refusal mode: this send is an event that has no transition anywhere (strict machine): whoever drains the queue
                # when its turn comes is handed TransitionNotAllowed
                ev = "nope" if (w, k) in refuse else event_of(case, w, k)
                try:
                    if style == "deferred":
                        pending = sm.send(ev, who=who, k=kk)  # the event is enqueued here ...
                        await sched.point(("idle-before-await", w, k))
                        await pending  # ... and the processing loop entered only now
                    else:
                        await sm.send(ev, who=who, k=kk)
                except TransitionNotAllowed as e:
                    if not refuse:
                        raise
                    refusals.append((w, k, str(e)))
                if style == "idle":
                    await sched.point(("idle", w, k))

        tasks = []
        if case.get("activate") == "race":
            # one more task activates the machine explicitly while the senders are already sending
            async def activator():
                try:
                    await sm.activate_initial_state()
                except TransitionNotAllowed as e:
                    # refusal mode: the activating task may be the one draining the queue when the refused event's turn comes
                    if not refuse:
                        raise
                    refusals.append((-1, 0, str(e)))

            ta = asyncio.ensure_future(activator())
            ta._wid = -1
            tasks.append(ta)
        for w in range(len(senders)):
            t = asyncio.ensure_future(sender(w))
            t._wid = w
            tasks.append(t)
        try:
            await asyncio.wait_for(sched.drive(tasks), 30)
        except asyncio.TimeoutError:
            raise HarnessError("gate scheduler timed out")
        for t in tasks:
            if t.exception() is not None:
                return ("sender-exception", f"sender task raised {t.exception()!r}"), log, sched
        if refuse:
            sent = [x for x in sent_events(senders, case.get("nested", []), case) if x not in refuse]
            if not 1 <= len(refusals) <= len(refuse):
                return ("refusals", f"{len(refuse)} event(s) without any transition were sent to a strict machine, TransitionNotAllowed was raised {len(refusals)} time(s): {refusals}"), log, sched
            bad = check_history(log, sent, case.get("cycle", 1), sm.current_state.id, subset=True)
            if bad:
                return bad, log, sched
            # "once all senders have returned no event is left unprocessed": a later, unrelated event finds an empty queue
            mark, state_then = len(log), sm.current_state.id
            probe = asyncio.ensure_future(sm.send("tick", who=99, k=0))
            probe._wid = 99
            try:
                await asyncio.wait_for(sched.drive([probe]), 30)
            except asyncio.TimeoutError:
                raise HarnessError("gate scheduler timed out (probe)")
            if probe.exception() is not None:
                return ("stranded", f"after all senders had returned (state {state_then}) one more event was sent and raised {probe.exception()!r}: something was left in the queue"), log, sched
            late = [(kind, w, k) for kind, w, k, _ in log[mark:]]
            if late != [("begin", 99, 0), ("end", 99, 0)]:
                return ("stranded", f"after all senders had returned (state {state_then}; TransitionNotAllowed had been delivered {len(refusals)}x) one more event was sent and the machine processed {late}: events were left unprocessed in the queue"), log, sched
            return None, log, sched
        return check_history(log, sent_events(senders, case.get("nested", []), case), case.get("cycle", 1), sm.current_state.id, ladder=case.get("ladder", 0)), log, sched

    bad, log, sched = asyncio.run(main())
    case["_branching"] = sched.branching
    if bad:
        return outcome(False, "C06:" + bad[0], f"asyncio, senders {senders}, styles {case.get('styles')}, gate order {sched.trace[:30]}: {bad[1]}", labels=labels)
    nt = contended(log) if not case.get("untagged") else sched.released > 2
    if nt:
        labels.add("contended")
    if case.get("refuse"):
        labels.add("refused-event-in-queue")
    for m in ("ladder", "untagged", "allow"):
        if case.get(m):
            labels.add(m)
    for s_ in set(case.get("styles", [])):
        labels.add("style:" + s_)
    return outcome(True, nontrivial=nt, labels=labels, stats={"schedules": 1, "gates_released": sched.released})


# ------------------------------------------------------------------------------------------ exhaustive enumeration (threads, 2 senders)
def baseline_steps(cfg):
    sched, bad, log = run_threads(dict(cfg, schedule=[]), trace_names=True)
    if bad:
        return None, bad, []
    return sched.step, None, sched.names


def is_dispatch(name):
    return name.startswith("engines/") or name.startswith("statemachine/event.py") or name.endswith(":send") or name.endswith(":_put_nonblocking") or name.endswith(":_processing_loop")


def extra(tier, seed, shard, nshards):
    configs = [{"senders": [1, 1]}, {"senders": [1, 2]}, {"senders": [2, 1]}, {"senders": [1, 1], "cb_points": 1, "listener": True},
               {"senders": [1, 1], "attach": True},
               {"senders": [2, 1], "ladder": 2, "allow": True, "idle": False}, {"senders": [1, 2], "untagged": True, "idle": False, "cb_points": 1}]
    if tier == "thorough":
        configs += [{"senders": [2, 2]}, {"senders": [1, 2], "nested": [[0, 0]]}, {"senders": [2, 1], "nested": [[1, 0]], "cycle": 2}, {"senders": [1, 1], "cycle": 3, "nested": [[0, 0], [1, 0]]}]
    total = nt_total = st_steps = 0
    idx = 0
    for cfg in configs:
        base = dict({"engine": "threads", "cycle": 1, "nested": [], "cb_points": 0, "listener": False}, **cfg)
        n, bad, names = baseline_steps(base)
        if bad:
            yield dict(base, schedule=[]), outcome(False, "C06:" + bad[0], f"unscheduled run: {bad[1]}")
            return
        # every single pre-emption (any line of the package); every pair of pre-emptions at lines of the dispatch code
        # (engines/*.py, event.py, StateMachine.send) - thorough: pairs over every line for the smallest configuration
        disp = [s_ for s_, w, name in names if is_dispatch(name)]
        disp_set = set(disp) if not (tier == "thorough" and cfg == configs[0]) else set(range(1, n + 1))
        all_pairs = tier == "thorough" and cfg == configs[0]

        # a pre-emption inside a short library-internal critical section makes the other sender block (the scheduler then
        # gives the turn back): such steps are found by the single pre-emptions (every shard runs those that it needs) and
        # are left out of the pairs
        blocked_steps = set()

        def schedules():
            for a in range(1, n + 1):
                yield [[a, None]]
            second = list(range(1, n + 1)) if all_pairs else disp
            first = second
            for a in first:
                for b in second:
                    if b > a:
                        yield [[a, None], [b, None]]

        for sch in schedules():
            idx += 1
            single = len(sch) == 1
            if idx % nshards != shard and not (single and sch[0][0] in disp_set):
                continue
            if not single and (sch[0][0] in blocked_steps or sch[1][0] in blocked_steps):
                continue
            case = dict(base, schedule=sch)
            out = run_case(case)
            if single and out.get("stats", {}).get("infeasible"):
                blocked_steps.add(sch[0][0])
            if idx % nshards != shard:
                continue  # (a single run only to learn whether the step is inside a critical section)
            total += 1
            if not out["ok"]:
                yield case, out
                return
            # (enumerated schedules are pairwise distinct by construction: counted, not hashed one by one)
            if out["nontrivial"]:
                nt_total += 1
            st_steps += out["stats"].get("steps", 0)
            if total % 20011 == 1:
                yield case, out
    # asyncio: EVERY order in which the controller can release the waiting gates, for the small configurations
    # (odometer over the schedule tree; the branching factor at each release is the number of waiting gates)
    aconfigs = [{"senders": [1, 1], "styles": ["await", "await"]}, {"senders": [1, 1], "styles": ["deferred", "await"]},
                {"senders": [1, 1], "styles": ["await", "await"], "nested": [[0, 0]]},
                {"senders": [2, 1], "styles": ["deferred", "await"], "ladder": 2, "allow": True}, {"senders": [1, 1, 1], "styles": ["await", "deferred", "deferred"], "untagged": True},
                {"senders": [1, 1], "styles": ["await", "deferred"], "activate": "race"}]
    if tier == "thorough":
        aconfigs += [{"senders": [1, 2], "styles": ["deferred", "idle"]}, {"senders": [2, 1], "styles": ["await", "deferred"], "nested": [[1, 0]]},
                     {"senders": [1, 1, 1], "styles": ["await", "deferred", "await"]}]
    atotal = 0
    for cfg in aconfigs:
        vec = []
        n_cfg = 0
        while True:
            n_cfg += 1
            case = dict({"engine": "asyncio", "cycle": 2, "nested": [], "activate": True, "exact": True}, **cfg, choices=list(vec))
            mine = (idx + n_cfg) % nshards == shard
            out = run_case(case)
            br = case.pop("_branching", [])
            if mine:
                atotal += 1
                yield case, out
                if not out["ok"]:
                    return
            elif not out["ok"]:
                pass  # reported by the shard that owns this schedule
            full = (vec + [0] * len(br))[: len(br)]
            i = len(br) - 1
            while i >= 0 and full[i] + 1 >= br[i]:
                i -= 1
            if i < 0 or n_cfg > (4000 if tier == "quick" else 60000):
                break
            vec = full[:i] + [full[i] + 1]
        idx += n_cfg
    yield None, {"exhaustive_schedules": total, "exhaustive_nontrivial": nt_total, "exhaustive_steps": st_steps, "exhaustive_async_gate_orders": atotal, "exhaustive": True}


# ------------------------------------------------------------------------------------------ generated schedules
_STEPS = {}


def hot_steps(cfg_key, cfg):
    """steps of an unscheduled run that execute queue / processing-loop code (pre-emption there is most likely to matter)"""
    if cfg_key not in _STEPS:
        n, bad, names = baseline_steps(cfg)
        hot = [s for s, w, name in names if is_dispatch(name)] if names else []
        _STEPS[cfg_key] = (n or 50, hot)
    return _STEPS[cfg_key]


@st.composite
def mode(draw, senders, nested=()):
    """cycle (every event valid everywhere, tagged) / ladder (sender 0's events enable one another; tolerant machine) / untagged
    (all events are the same event with equal arguments: nothing may be merged or de-duplicated)"""
    r = draw(st.integers(0, 9))
    if r < 3:
        return {"ladder": senders[0], "allow": draw(st.integers(0, 3)) > 0}
    if r < 5:
        return {"untagged": True, "allow": draw(st.booleans()), "nested": []}
    return {"allow": draw(st.integers(0, 3)) == 0}


@st.composite
def cases(draw, tier):
    if draw(st.integers(0, 9)) < 4:
        n = draw(st.integers(2, 4))
        senders = [draw(st.integers(1, 3)) for _ in range(n)]
        nested = [[w, k] for w in range(n) for k in range(senders[w]) if draw(st.integers(0, 9)) < 3]
        cfg = dict({"engine": "asyncio", "cycle": draw(st.integers(1, 3)), "senders": senders, "nested": nested, "activate": draw(st.sampled_from([False, True, "race", "race"])),
                    "styles": [draw(st.sampled_from(["await", "deferred", "idle", "deferred"])) for _ in range(n)],
                    "choices": draw(st.lists(st.integers(0, 7), min_size=1, max_size=40))}, **draw(mode(senders, nested)))
        if not (cfg.get("ladder") or cfg.get("untagged") or cfg.get("allow")) and draw(st.integers(0, 2)) == 0:
            # refusal mode (round 6, C06k): one or two of the sends are events without any transition; nothing may stay behind them
            pos = [[w, k] for w in range(n) for k in range(senders[w])]
            cfg["refuse"] = draw(st.lists(st.sampled_from(pos), min_size=1, max_size=2, unique_by=tuple))
            cfg["nested"] = [x for x in cfg["nested"] if x not in cfg["refuse"]]
        return cfg
    n = draw(st.sampled_from([2, 2, 3, 3, 4]))
    senders = [draw(st.integers(1, 3 if n < 4 else 2)) for _ in range(n)]
    nested = [[w, k] for w in range(n) for k in range(senders[w]) if draw(st.integers(0, 9)) < 2]
    cfg = {"engine": "threads", "cycle": draw(st.integers(1, 3)), "senders": senders, "nested": nested, "cb_points": draw(st.integers(0, 2)),
           "listener": draw(st.booleans()), "attach": draw(st.integers(0, 3)) == 0}
    cfg.update(draw(mode(senders)))
    if cfg.get("untagged"):
        cfg["nested"], cfg["attach"] = [], False
    cfg["idle"] = draw(st.integers(0, 2)) > 0  # senders yield voluntarily between their sends, or send back to back
    total, hot = hot_steps(repr(sorted(cfg.items())), cfg)
    sch = []
    for _ in range(draw(st.integers(1, 4))):
        step = draw(st.sampled_from(hot)) if hot and draw(st.integers(0, 9)) < 7 else draw(st.integers(1, max(total, 2)))
        tgt = draw(st.one_of(st.none(), st.integers(0, n - 1)))
        sch.append([step, tgt])
    sch.sort(key=lambda x: x[0])
    return dict(cfg, schedule=sch)


def strategy(tier):
    return cases(tier)


def budget(tier):
    return 16 * 250 if tier == "quick" else 16 * 4000


def evidence_hook(cov):
    c = cov.get("counters", {})
    cov["evaluations"] += cov.get("exhaustive_schedules", 0)
    cov["distinct_nontrivial"] += cov.get("exhaustive_nontrivial", 0)
    cov["schedules_executed"] = c.get("schedules", 0) + cov.get("exhaustive_schedules", 0)
    return cov
