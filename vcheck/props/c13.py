"""C13 — send(), event methods and bound events are one and the same entry point (DESIGN.md 4/C13)."""
import keyword

from hypothesis import strategies as st

from .. import gen
from ..core import HarnessError
from ..scenario import Fail, Play, play_case
from .c10 import values_for

PROPERTY = "C13"
LEVEL = "exploration"
RULE = (
    "case = generated machine x config x history in which every step is triggered through a drawn style: sm.send('e'), sm.e(), the matching item "
    "of sm.events, the matching item of sm.allowed_events, the trigger bound onto another object with bind_events_to, MachineMixin with "
    "bind_events_as_methods; with args/kwargs. Oracle: every style gives the reference interpreter's result/exception/state/callback log; after "
    "every step allowed_events == events of the transitions leaving the current state, once each, in declaration order, and events == the "
    "declared set without duplicates. Name fuzzing: every name in dir(machine) (methods, properties, dunders, state ids, private attributes) "
    "plus generated text and near-misses of the declared names (padded with whitespace, other case, truncated) that are not declared events are sent: it must raise TransitionNotAllowed (or return None when tolerated) and leave an "
    "identical observable snapshot (state, model __dict__, repr, recorder length) - nothing else was invoked. "
    "non-trivial = a step using a non-send style, or a fuzzed name that is an attribute of the machine"
)
ASSUMPTIONS = [
    "declaration order of allowed_events is asserted for the default rendering (plain to() calls in class-body order)",
    "MachineMixin needs a configured django (settings.configure(INSTALLED_APPS=[])); when django is missing that style is skipped and counted",
    "reference interpreter trusted",
]
STYLES = ["send", "method", "events-item", "allowed-item", "bound", "send", "method"]


class Target:
    """object the machine's triggers are bound onto"""


def _django():
    try:
        import django
        from django.conf import settings

        if not settings.configured:
            settings.configure(INSTALLED_APPS=[])
            django.setup()
        return True
    except Exception:
        return False


class P(Play):
    async def construct(self, name="main", model=None, Hh=None, state0=None):
        if name == "main" and self.cfg.get("mixin"):
            return await self.construct_mixin()
        ctx = await super().construct(name, model, Hh, state0)
        tgt, tgt2 = Target(), Target()
        ctx.sm.bind_events_to(tgt, tgt2)  # several targets in one call
        ctx.extra["bound"], ctx.extra["bound2"] = tgt, tgt2
        return ctx

    async def construct_mixin(self):
        """The machine is created by MachineMixin on the model (default options), triggers bound as methods."""
        from statemachine.mixins import MachineMixin

        from .. import core
        from ..scenario import Ctx

        if not _django():
            raise Fail("skip", "django not available for MachineMixin")
        r = self.rendered
        Hh = r.new_H()
        base = r.provider_classes.get("model")
        bases = (MachineMixin, base) if base else (MachineMixin,)
        mcls = type(r.cls.__name__ + "_mixin", bases, {
            "state_machine_name": f"{r.cls.__module__}.{r.cls.__name__}", "state_machine_attr": "sm", "bind_events_as_methods": True,
            "__module__": core.__name__})
        objs = {}
        for prov, pcls in r.provider_classes.items():
            if prov != "model":
                o = pcls()
                o.H = Hh
                objs[prov] = o
        Hh.objs = objs
        r.cls.H = Hh  # the mixin calls machine_cls(model, state_field=...): the recorder is found on the class
        all_provs = {"machine", "free", "model"}
        it = self.new_interp(all_provs, False)
        ctx = Ctx("main", None, Hh, it, None)
        self.ctxs["main"] = self.main = ctx
        self.set_val(ctx, {})
        self.set_fault(ctx, None)
        model = mcls.__new__(mcls)
        model.H = Hh
        objs["model"] = model
        try:
            mcls.__init__(model)
        except Exception as e:
            if type(e).__name__ in ("Boom", "TransitionNotAllowed"):
                raise Fail("skip", "initial activation fails (as expected)")
            raise
        ctx.sm = model.sm
        ctx.model = model
        ctx.extra["bound"] = model
        Hh.log[:] = [t for t in Hh.log if t[0] != "G"]
        self.check_round(ctx, ("ok", None), lambda: it.activate(), "construction through MachineMixin", ignore_result=True)
        if ctx.sm.model is not model:
            raise Fail("mixin-model", "MachineMixin did not use the mixin instance as the model")
        self.labels.add("mixin")
        return ctx

    def invariants(self, ctx, what):
        it = ctx.interp
        sm = ctx.sm
        declared = []
        for t in self.spec["trans"]:
            for e in t["events"]:
                if e not in declared:
                    declared.append(e)
        got = [str(e) for e in sm.events]
        if sorted(got) != sorted(declared):
            raise Fail("events-list", f"{what}: sm.events == {got}, declared events are {declared}")
        if it.state is None:
            return
        exp = []
        for t in self.spec["trans"]:
            if t["src"] == it.state:
                for e in t["events"]:
                    if e not in exp:
                        exp.append(e)
        allowed = [str(e) for e in sm.allowed_events]
        # (with a declaration plan, the order in which a state's events were declared is the plan's, not the spec's)
        if (sorted(allowed) != sorted(exp)) if self.spec.get("style") else (allowed != exp):
            kind = "allowed-events-duplicates" if len(set(allowed)) != len(allowed) else "allowed-events"
            raise Fail(kind, f"{what}: allowed_events == {allowed} in state {it.sid(it.state)}, expected {exp}")
        for e in sm.allowed_events:
            if getattr(e, "id", None) != str(e):
                raise Fail("allowed-events", f"{what}: item {e!r} of allowed_events has id {getattr(e, 'id', None)!r}")

    def on_step(self, i, step, obs, exp, before):
        style = step.get("style", "send")
        self.labels.add("style:" + style)
        if style != "send":
            self.nontrivial = True

    def snapshot(self, ctx):
        sm = ctx.sm
        md = getattr(sm.model, "__dict__", {})
        return (repr(sm.current_state_value), sorted((k, repr(v)) for k, v in md.items() if k not in ("H", "sm")), repr(sm), len(ctx.H.log),
                sorted(k for k in vars(sm) if not k.startswith("_")))

    async def finale(self):
        ctx = self.main
        if ctx.interp.state is None:
            await self.op_activate({})
        sm = ctx.sm
        declared = {str(e) for e in sm.events}
        padded = [v for e in sorted(declared) for v in (" " + e, e + " ", e + "\n", "\t" + e, e.upper(), e + "_", e[:-1])]
        names = [n for n in dir(sm) if n not in declared] + [n for n in list(self.case.get("fuzz_names", [])) + padded if n not in declared]
        n_attr = 0
        for name in names:
            before = self.snapshot(ctx)
            obs = await self.call(lambda: sm.send(name))
            after = self.snapshot(ctx)
            what = f"send({name!r}) [a non-event name]"
            if self.allow:
                if obs != ("ok", None):
                    raise Fail("non-event-name", f"{what}: expected None (tolerated), got {obs!r}")
            else:
                if obs[0] != "exc" or type(obs[1]).__name__ != "TransitionNotAllowed":
                    raise Fail("non-event-name", f"{what}: expected TransitionNotAllowed, got {obs!r}")
                if str(getattr(obs[1], "event", None)) != name:
                    raise Fail("non-event-name", f"{what}: TransitionNotAllowed.event is {getattr(obs[1], 'event', None)!r}")
            if before != after:
                raise Fail("non-event-name-side-effect", f"{what}: observable snapshot changed from {before} to {after}")
            if hasattr(sm, name):
                n_attr += 1
        self.stats["fuzzed_names"] = len(names)
        self.stats["fuzzed_attribute_names"] = n_attr
        if n_attr:
            self.nontrivial = True
        sm = None  # (no local reference either)
        await self.trigger_outlives_machine_variable(ctx)
        # a class-level recorder set for the mixin style must not leak into other cases
        if "H" in vars(self.rendered.cls):
            del self.rendered.cls.H

    async def trigger_outlives_machine_variable(self, ctx):
        """A trigger taken from the machine (item of events / bound onto another object) is an entry point of its own: it keeps
        working when the caller no longer holds the machine in a variable."""
        import gc

        it = ctx.interp
        if it.is_async or self.cfg.get("mixin") or it.state is None or self.driver != "sync":
            return
        ev = next((e for t in self.spec["trans"] if t["src"] == it.state for e in t["events"]), None)
        if ev is None or "bound" not in ctx.extra:
            return
        model = ctx.sm.model
        trig = [e for e in ctx.sm.events if e == ev][0] if self.case.get("fuzz_names") else getattr(ctx.extra["bound"], ev)
        Hh = ctx.H
        ctx.sm = None
        ctx.extra.clear()
        gc.collect()
        Hh.log.clear()
        try:
            obs = ("ok", trig())
        except Exception as e:
            obs = ("exc", e)
        if obs[0] == "exc" and type(obs[1]).__name__ == "RuntimeError":
            raise Fail("orphan-trigger", f"a trigger for {ev!r} taken from the machine stopped working once the machine was no longer referenced: {obs[1]}")
        it.begin(list(Hh.log))
        from ..core import ExpBoom, ExpTNA, Mismatch

        try:
            try:
                exp = ("ok", it.send(ev))
            except (ExpBoom, ExpTNA) as e:
                exp = ("exc", e)
            it.finish()
        except Mismatch as m:
            raise Fail("orphan-trigger", f"trigger {ev!r} called without a reference to the machine: {m.detail}")
        if exp[0] != obs[0]:
            raise Fail("orphan-trigger", f"trigger {ev!r} called without a reference to the machine gave {obs!r}, expected {exp!r}")
        stored = getattr(model, self.field, None)
        if repr(stored) != repr(it.svalue(it.state)):
            raise Fail("orphan-trigger", f"after the trigger the model holds {stored!r}, expected {it.svalue(it.state)!r}")
        self.labels.add("trigger-without-machine-reference")


@st.composite
def cases(draw, tier):
    mixin = draw(st.integers(0, 9)) == 7
    provs = draw(st.sampled_from([("machine",), ("machine", "model"), ("machine", "model", "l0")])) if not mixin else draw(st.sampled_from([("machine",), ("machine", "model")]))
    async_mode = "none" if mixin else draw(st.sampled_from(["none", "none", "all", "mixed"]))
    spec = draw(gen.machine_spec(max_states=5, providers=provs, async_mode=async_mode, sends=draw(st.sampled_from([False, False, True]))))
    kind = draw(st.sampled_from(["ids", "ids", "int", "mixed", "enum", "intenum"]))
    vals = values_for(kind, len(spec["states"]), draw)
    if vals is not None:  # allowed_events / events must not depend on the kind of value a state stores (falsy ones included)
        for s_, v in zip(spec["states"], vals):
            s_["value"] = v
    if not mixin and draw(st.integers(0, 2)) == 0:
        # the entry points must not depend on how the events were declared (event= strings, class attributes, Event objects,
        # one event declared in several places, inherited / extended classes, from_.any())
        from .c15 import plan

        inline_state = kind not in ("ids", "int") or any(c["scope"][0] == "state" and c["attach"] != "conv" for c in spec["cbs"])
        spec["style"] = draw(plan(spec, draw(gen.add_bundle(spec)), inline_state, extend=True))
    is_async = gen.is_async_spec(spec)
    if mixin:
        cfg = {"rtc": True, "allow": False, "driver": "sync", "activate": False, "mixin": True}
    else:
        cfg = {"rtc": True if is_async else draw(st.sampled_from([True, True, False])), "allow": draw(st.booleans()),
               "driver": draw(st.sampled_from(["sync", "loop", "sync"])), "activate": draw(st.booleans())}
    hist = draw(gen.history(spec, max_steps=10 if tier == "quick" else 20))
    for n, step in enumerate(hist):
        step["style"] = draw(st.sampled_from(STYLES))
        if n == 0 and draw(st.integers(0, 3)) == 0:  # an attribute name as the very first "event" (before a deferred activation)
            step["ev"] = draw(st.sampled_from(["current_state", "allowed_events", "current_state_value", "model", "s0"]))
    fuzz = draw(st.lists(st.one_of(st.text(max_size=8), st.sampled_from(["__class__", "s0", "s1", "go ", " go", "Go", "send", "model", "_engine", "states", "events", "name", "H", "__initial__", "__initial__"])), max_size=6))
    return {"spec": spec, "cfg": cfg, "history": hist, "fuzz_names": fuzz}


def strategy(tier):
    return cases(tier)


def budget(tier):
    return 16 * 100 if tier == "quick" else 16 * 1500


def run_case(case):
    return play_case(case, P, PROPERTY)
