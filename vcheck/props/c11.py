"""C11 — initial activation happens once; a stored state is resumed untouched (DESIGN.md 4/C11)."""
from hypothesis import strategies as st

from .. import gen
from ..scenario import Fail, Play, play_case
from .c10 import values_for

PROPERTY = "C11"
LEVEL = "exploration"
RULE = (
    "case = generated machine (initial enter callbacks may send events; values of any kind; start_value unset or any state's value) over a "
    "persistent model object that outlives machines x history of: send, explicit activate_initial_state() (any number of times, before or "
    "after events), reconstruct (a new machine over the same model with re-drawn rtc / allow_event_without_transition), for sync and coroutine "
    "machines driven from sync code or inside a loop. Oracle = reference interpreter: a model without state -> exactly one enter phase of the "
    "start state under '__initial__' followed by its scripted sends (for coroutine machines: before the first event or on explicit activation); "
    "a model holding a valid state -> zero callback records during construction/activation, the stored value untouched (identity for enum "
    "members), the next event leaves from the stored state; re-activation is a no-op. "
    "A reconstruct step may instead use a brand-new model and another start_value (second instance of the same class). "
    "For coroutine machines the task awaiting the activation may be cancelled while an initial enter callback is suspended; a later activation must not enter the state again. "
    "non-trivial = a reconstruction over a stored non-initial state, or a repeated activation, or a deferred (first-event) activation of a coroutine machine"
)
ASSUMPTIONS = ["the return value of activate_initial_state() is not part of the property", "reference interpreter trusted"]


class P(Play):
    async def op_activate(self, step):
        ctx = self.ctxs[step.get("target", "main")]
        if ctx.interp.state is not None:
            self.labels.add("re-activation")
            self.nontrivial = True
        await super().op_activate(step)

    async def op_reconstruct(self, step):
        ctx = self.ctxs[step.get("target", "main")]
        if ctx.interp.state is not None and ctx.interp.state != (self.start_index() if self.start_index() is not None else ctx.interp.init_index):
            self.labels.add("resume-from-non-initial")
            self.nontrivial = True
        await super().op_reconstruct(step)

    async def op_cancel_activation(self, step):
        """The task awaiting activate_initial_state() is cancelled while an initial enter callback is suspended.  The state
        was already entered: a later activation must be a no-op (the initial state is entered exactly once)."""
        import asyncio
        from collections import Counter

        ctx = self.main
        if not ctx.interp.is_async or ctx.interp.state is not None or self.driver != "loop":
            return
        task = asyncio.ensure_future(ctx.sm.activate_initial_state())
        for _ in range(step.get("ticks", 1)):
            await asyncio.sleep(0)
        if task.done():
            obs = ("ok", None) if task.exception() is None else ("exc", task.exception())
            self.check_round(ctx, obs, lambda: ctx.interp.activate(), f"step {self.i} activate_initial_state()", ignore_result=True)
            return
        task.cancel()
        try:
            await task
        except asyncio.CancelledError:
            pass
        for _ in range(3):
            await asyncio.sleep(0)
        it = ctx.interp
        if ctx.sm.current_state_value is None:
            raise Fail("cancelled-activation", f"step {self.i}: activation was cancelled inside an enter callback but no state is set")
        it.state = it.init_index if it.start is None else it.start
        it.queue.clear()
        it.occ = Counter(ctx.H.occ)
        ctx.H.log.clear()
        self.check_state(ctx, f"step {self.i} after a cancelled activation")
        self.labels.add("cancelled-activation")
        self.nontrivial = True

    def on_step(self, i, step, obs, exp, before):
        if self.is_async and not self.explicit_activate and i == self._first_send:
            self.labels.add("deferred-activation")
            self.nontrivial = True

    async def body(self):
        self._first_send = next((i for i, s in enumerate(self.case["history"]) if s.get("op", "send") == "send"), -1)
        if any(s.get("op") == "activate" for s in self.case["history"][: max(self._first_send, 0)]):
            self._first_send = -1
        await super().body()


@st.composite
def cases(draw, tier):
    async_mode = draw(st.sampled_from(["none", "none", "all", "mixed"]))
    spec = draw(gen.machine_spec(max_states=5, providers=draw(st.sampled_from([("machine",), ("machine", "model")])), async_mode=async_mode,
                                 sends=draw(st.booleans()), attach=("conv", "name", "deco")))
    n = len(spec["states"])
    kind = draw(st.sampled_from(["ids", "ids", "int", "enum", "mixed"]))
    vals = values_for(kind, n, draw)
    if vals is not None:
        for s, v in zip(spec["states"], vals):
            s["value"] = v
    is_async = gen.is_async_spec(spec)
    cfg = {"rtc": True if is_async else draw(st.booleans()), "allow": draw(st.booleans()), "driver": draw(st.sampled_from(["sync", "sync", "loop"])),
           "activate": draw(st.booleans()), "model_shape": draw(st.sampled_from(["default", "plain", "property", "preset-none", "class-default"])),
           "state_field": draw(st.sampled_from(["state", "status"]))}
    if draw(st.integers(0, 2)) == 0:
        i = draw(st.integers(0, n - 1))
        cfg["start_value"] = spec["states"][i]["value"] if "value" in spec["states"][i] else spec["states"][i]["id"]
    hist = []
    if is_async and cfg["driver"] == "loop" and draw(st.booleans()):
        cfg["activate"] = False
        start = next((i for i, s_ in enumerate(spec["states"]) if "start_value" in cfg and (s_.get("value", s_["id"]) == cfg["start_value"])), 0)
        for c in spec["cbs"]:
            if c["group"] == "enter" and (c["scope"][0] == "generic" or c["scope"][1] == start):
                if c.get("async"):
                    c["yields"] = max(c.get("yields", 0), 2)
                # what happens to events an enter callback had already queued when the activation is cancelled is not
                # specified (a cancellation is not a failing callback): the cancelled activation queues nothing
                c["sends"] = {k: v for k, v in c.get("sends", {}).items() if k != "0"}
        hist.append({"op": "cancel_activation", "ticks": draw(st.integers(1, 3))})
        hist.append({"op": "activate"})
    for step in draw(gen.history(spec, max_steps=8 if tier == "quick" else 14)):
        r = draw(st.integers(0, 9))
        if r < 2:
            hist.append({"op": "activate"})
        elif r < 5:
            rec = {"op": "reconstruct", "allow": draw(st.booleans())}
            if not is_async:
                rec["rtc"] = draw(st.booleans())
            if draw(st.integers(0, 3)) == 0:
                rec["fresh"] = True
                if draw(st.booleans()):
                    j = draw(st.integers(0, n - 1))
                    rec["start_value"] = spec["states"][j]["value"] if "value" in spec["states"][j] else spec["states"][j]["id"]
            hist.append(rec)
            if draw(st.booleans()):
                hist.append({"op": "activate"})
        hist.append(step)
    return {"spec": spec, "cfg": cfg, "history": hist}


def strategy(tier):
    return cases(tier)


def budget(tier):
    return 16 * 120 if tier == "quick" else 16 * 2000


def run_case(case):
    return play_case(case, P, PROPERTY)
