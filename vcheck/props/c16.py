"""C16 — machines are isolated from other instances, classes and definitions (DESIGN.md 4/C16)."""
import copy
import types
import warnings

from hypothesis import strategies as st

from statemachine import State, StateMachine
from statemachine.exceptions import InvalidDefinition, TransitionNotAllowed

from .. import gen
from ..core import Boom, HarnessError, render
from ..scenario import Fail, Play, play_case

PROPERTY = "C16"
LEVEL = "exploration"
RULE = (
    "metamorphic: subject instance A (generated machine, config, history H) is driven while NOISE operations are interleaved between its steps: "
    "(1) an unrelated class that reuses A's class name, method names and parameter names - the same definition with every callback's async-ness "
    "flipped, or a different generated definition - is defined, instantiated and driven; (2) sibling instances of A's class (own model, listeners, "
    "options) are created and driven, also from inside A's callbacks (a listener of A sends events to the sibling during A's transitions); "
    "(3) subclasses of A's class that add methods (helper methods and convention-named callbacks) are defined, instantiated and driven. Oracle: A's "
    "observations (states, results, exceptions, complete callback logs, argument binding) equal what the reference interpreter gives for H alone - "
    "the quiet world - and sibling instances follow their own interpreter; classes defined by earlier cases of the run stay loaded, so pollution "
    "left by earlier examples shows too. In a quarter of the cases, additionally, MachineMixin model classes in an inheritance chain (a subclass overriding "
    "state_machine_name, one inheriting it), instantiated in a generated order, must each get the machine class their own class names; and a shallow copy (copy.copy) of a machine is treated as one more instance: its "
    "triggers drive the copy, a listener attached to the copy is never called by the original nor by later deepcopy / pickle clones of the original. non-trivial = a noise operation executed between two steps of A that reuses a name A uses, or a sibling "
    "driven from inside A's callbacks"
)
ASSUMPTIONS = [
    "subclasses that declare transitions / decorator callbacks on inherited State or event objects are excluded (finding K2, probed separately)",
    "reference interpreter trusted",
]


class SharedTarget:
    """one object onto which several machines bind their triggers (the first one to bind an event name keeps it)"""


class P(Play):
    async def construct(self, name="main", model=None, Hh=None, state0=None):
        ctx = await super().construct(name, model, Hh, state0)
        if self.case.get("shared_target") and not ctx.interp.is_async:
            if name == "main":
                self.shared = SharedTarget()
                ctx.sm.bind_events_to(self.shared)
                ctx.extra["bound"] = self.shared
            elif hasattr(self, "shared"):
                with warnings.catch_warnings():
                    warnings.simplefilter("ignore")  # documented: existing attributes are skipped with a warning
                    ctx.sm.bind_events_to(self.shared)
                self.labels.add("two-machines-one-target")
        return ctx

    async def op_send(self, step):
        tgt = step.get("target", "main")
        if tgt not in self.ctxs:
            step = dict(step, target="main")
        await super().op_send(step)
        t = step.get("target", "main")
        for name, ctx in self.ctxs.items():
            if name != t and ctx.H.log and not getattr(self, "_driven", False):
                raise Fail("cross-instance-call", f"step {self.i}: event sent to {t} produced records in the recorder of {name}: {ctx.H.log[:2]}")
        if getattr(self, "_noise_since", False) and t == "main":
            self.nontrivial = True
            self.labels.add("subject-step-after-noise")
            self._noise_since = False

    async def op_noise_class(self, step):
        """Unrelated class reusing the subject's class name, method names and parameter names."""
        spec2 = self.case["noise_specs"][step["spec"]]
        with warnings.catch_warnings():
            warnings.simplefilter("ignore")
            try:
                r2 = render(spec2, cname=self.rendered.cls.__name__, register=False)
            except InvalidDefinition as e:
                raise HarnessError(f"noise spec invalid: {e}")
            try:
                sm2, H2 = r2.make(allow=True)
            except InvalidDefinition:
                return
            except (Boom, TransitionNotAllowed):
                return
            try:
                if gen.is_async_spec(spec2):
                    sm2.activate_initial_state()
                for ev in step["events"]:
                    try:
                        sm2.send(ev)
                    except (TransitionNotAllowed, Boom):
                        pass
            except (TransitionNotAllowed, Boom):
                pass
            except HarnessError:
                raise
            except Exception as e:
                # the unrelated class is a valid machine too: it must not break because the subject's definitions exist
                raise Fail("other-class-misbehaves", f"step {self.i}: the unrelated class reusing the subject's names failed with {type(e).__name__}: {e}")
        self.labels.add("noise:class-" + step["variant"])
        self._noise_since = True

    async def op_noise_subclass(self, step):
        """Subclass that adds helper methods and convention-named callbacks; its instance is driven."""
        base = self.rendered.cls
        shape_before = [(s_.id, len(s_.transitions), sorted(str(e) for t in s_.transitions for e in t.events)) for s_ in base.states]
        calls = []
        ns = {"helper": lambda self: calls.append("helper"), "__module__": base.__module__}
        for name in step["names"]:
            def cb(self, _n=name):
                calls.append(_n)
            cb.__name__ = name
            cb.__qualname__ = f"{base.__name__}.{name}"
            ns[name] = cb
        with warnings.catch_warnings():
            warnings.simplefilter("ignore")
            Sub = types.new_class(base.__name__, (base,), {}, lambda d: d.update(ns))
            H2 = self.rendered.new_H()
            objs = {}
            for prov, pcls in self.rendered.provider_classes.items():
                o = pcls()
                o.H = H2
                objs[prov] = o
            H2.objs = objs
            kw = {}
            if "model" in objs:
                kw["model"] = objs["model"]
            ls = [objs[p] for p in sorted(objs) if p.startswith("l") and not p.startswith("late")]
            if ls:
                kw["listeners"] = ls
            try:
                sub = Sub(H2, allow_event_without_transition=True, **kw)
                if gen.is_async_spec(self.spec):
                    sub.activate_initial_state()
                for ev in step["events"]:
                    try:
                        sub.send(ev)
                    except (TransitionNotAllowed, Boom):
                        pass
            except (TransitionNotAllowed, Boom):
                pass
            except HarnessError:
                raise
            except Exception as e:
                raise Fail("subclass-misbehaves", f"step {self.i}: a subclass adding methods failed with {type(e).__name__}: {e}")
        self.labels.add("noise:subclass")
        self._noise_since = True
        shape_after = [(s_.id, len(s_.transitions), sorted(str(e) for t in s_.transitions for e in t.events)) for s_ in base.states]
        if shape_after != shape_before:
            raise Fail("subclass-changed-base", f"step {self.i}: defining a subclass changed the transitions of the subject's class: {shape_before} -> {shape_after}")
        for name, ctx in self.ctxs.items():
            if ctx.H.log:
                raise Fail("cross-instance-call", f"step {self.i}: driving a subclass instance produced records in the recorder of {name}: {ctx.H.log[:2]}")


def _django():
    from .c13 import _django as d

    return d()


def mixin_family(case):
    """Model classes using MachineMixin in an inheritance chain: Doc names machine class A, Legal(Doc) overrides the name with B,
    Memo(Doc) inherits Doc's name; instances are created in a generated order.  Which machine class a model gets must depend on
    its own class only, never on which other model classes were instantiated before."""
    from statemachine.mixins import MachineMixin

    from .. import core
    from ..core import H
    from ..scenario import dispose

    fam = case.get("family")
    if not fam:
        return None, set()
    if not _django():
        return None, {"mixin-family:skipped-no-django"}
    rs = []
    try:
        with warnings.catch_warnings():
            warnings.simplefilter("ignore")
            rA, rB = render(fam["specs"][0]), render(fam["specs"][1])
            rs = [rA, rB]
            rA.cls.H, rB.cls.H = H(fam["specs"][0]), H(fam["specs"][1])
            rA.cls.H.objs, rB.cls.H.objs = {}, {}
            qual = lambda c: f"{c.__module__}.{c.__name__}"
            Doc = type("Doc", (MachineMixin,), {"state_machine_name": qual(rA.cls), "state_machine_attr": "sm", "__module__": core.__name__})
            Legal = type("Legal", (Doc,), {"state_machine_name": qual(rB.cls)})
            Memo = type("Memo", (Doc,), {})
            want = {"Doc": rA, "Legal": rB, "Memo": rA}
            made = []
            for nm in fam["order"]:
                mcls = {"Doc": Doc, "Legal": Legal, "Memo": Memo}[nm]
                try:
                    obj = mcls()
                except Exception as e:
                    return outcome_fail("C16:mixin-family", f"creating a {nm} model (after {made}) failed with {type(e).__name__}: {e}", case), set()
                r = want[nm]
                sm = obj.sm
                if type(sm) is not r.cls:
                    return outcome_fail("C16:mixin-family", f"model class {nm} names machine class {r.cls.__name__} but, created after {made}, got an instance of {type(sm).__name__}", case), set()
                init = next(s_["id"] for s_ in r.spec["states"] if s_.get("initial"))
                if sm.model is not obj or sm.current_state.id != init:
                    return outcome_fail("C16:mixin-family", f"model {nm} created after {made}: machine model/initial state wrong ({sm.current_state.id!r} vs {init!r})", case), set()
                if sorted(str(e) for e in sm.events) != sorted(r.spec["events"]):
                    return outcome_fail("C16:mixin-family", f"model {nm} created after {made}: events {sorted(str(e) for e in sm.events)} != {sorted(r.spec['events'])}", case), set()
                made.append(nm)
    finally:
        for r in rs:
            dispose(r)
    return None, {"mixin-family", "mixin-family:first=" + fam["order"][0]}


class Spy:
    """listener attached to ONE instance; records (at class level, so that copies of it report too) which machine called it"""

    calls = []

    def after_transition(self, machine):
        Spy.calls.append((self, machine))


def shallow_twin(case, pid="C16"):
    """A shallow copy (copy.copy) of a machine is one more instance: its triggers drive the copy, a listener attached to it is
    invoked by it alone - not by the machine it was copied from, nor by later deepcopy / pickle clones of that machine."""
    import pickle

    from ..scenario import dispose

    tw = case.get("twin")
    if not tw:
        return None, set()
    r = render(tw["spec"])
    try:
        with warnings.catch_warnings():
            warnings.simplefilter("ignore")
            base, Hb = r.make(allow=False)
            Hb.val.update({cid: True for cid in tw["true_guards"]})
            for ev in tw["spec"]["events"]:
                getattr(base, ev)  # every trigger has been looked at on the original
            twin = copy.copy(base)
            if twin is base:
                return outcome_fail(pid + ":shallow-twin", "copy.copy(machine) is the machine itself", case), set()
            Spy.calls = []
            twin.add_listener(Spy())
            fired = 0
            for ev, style in tw["on_twin"]:
                n0 = len(Spy.calls)
                try:
                    getattr(twin, ev)() if style == "method" else twin.send(ev)
                except TransitionNotAllowed:
                    continue
                except Boom:
                    continue
                fired += 1
                if len(Spy.calls) == n0:
                    return outcome_fail(pid + ":shallow-twin", f"{style} {ev!r} on a shallow copy ran a transition, but the listener attached to that copy was not called (the event went elsewhere)", case), set()
            if any(m is not twin for _l, m in Spy.calls):
                return outcome_fail(pid + ":shallow-twin", "a listener attached to a shallow copy was called by another machine", case), set()
            n0 = len(Spy.calls)
            for ev in tw["on_base"]:
                try:
                    base.send(ev)
                except (TransitionNotAllowed, Boom):
                    pass
            clone = copy.deepcopy(base) if tw["how"] == "deepcopy" else pickle.loads(pickle.dumps(base))
            for ev in tw["on_clone"]:
                try:
                    clone.send(ev)
                except (TransitionNotAllowed, Boom):
                    pass
            if len(Spy.calls) != n0:
                who = "the original" if any(m is base for _l, m in Spy.calls[n0:]) else f"a {tw['how']} clone of the original"
                return outcome_fail(pid + ":shallow-twin", f"a listener attached to a shallow copy only was called by {who}", case), set()
    finally:
        Spy.calls = []
        dispose(r)
    return None, {"shallow-twin", "shallow-twin:fired" if fired else "shallow-twin:nothing-fired"}


def shared_defaults(case, pid="C16"):
    """One list object with default listeners is handed to several constructors; a listener added to ONE machine with add_listener
    belongs to that machine: machines built from the list later do not call that listener."""
    from ..scenario import dispose

    tw = case.get("twin")
    if not tw:
        return None, set()
    r = render(tw["spec"])
    try:
        with warnings.catch_warnings():
            warnings.simplefilter("ignore")
            base_l = Spy()
            defaults = [base_l]
            Hb = r.new_H()
            Hb.val.update({cid: True for cid in tw["true_guards"]})
            Hb.objs = {}
            m1 = r.cls(Hb, listeners=defaults)
            extra = Spy()
            m1.add_listener(extra)
            H2 = r.new_H()
            H2.val.update({cid: True for cid in tw["true_guards"]})
            H2.objs = {}
            m2 = r.cls(H2, listeners=defaults)
            Spy.calls = []
            fired = 0
            for ev in tw["on_clone"] + tw["on_base"]:
                try:
                    m2.send(ev)
                    fired += 1
                except (TransitionNotAllowed, Boom):
                    pass
            seen = list(Spy.calls)
            if any(l is extra for l, _ in seen):
                return outcome_fail(pid + ":shared-defaults", "a listener added to one machine with add_listener() was called by another machine built from the same default-listeners list", case), set()
            if fired and not any(l is base_l and m is m2 for l, m in seen):
                return outcome_fail(pid + ":shared-defaults", "the default listener was not called by the second machine built from the list", case), set()
    finally:
        Spy.calls = []
        dispose(r)
    return None, {"shared-defaults-list"}


def outcome_fail(sig, detail, case):
    from ..scenario import outcome

    return outcome(False, sig, detail, case=case)


def flipped(spec):
    s = copy.deepcopy(spec)
    any_async = gen.is_async_spec(spec)
    for c in s["cbs"]:
        c["async"] = not any_async
        c["yields"] = 0
        c["sends"] = {}
    for g in s.get("guards", []):
        if g["kind"] == "method" and not g.get("multi"):
            g["async"] = not any_async
    s.pop("style", None)
    return s


@st.composite
def twin_case(draw):
    from ..core import cbid_of

    ts = draw(gen.machine_spec(max_states=3, max_extra=3, providers=("machine",), async_mode="none", sends=False, attach=("conv", "name"), guard_kinds=("method",)))
    evs = st.lists(st.sampled_from(ts["events"]), max_size=4)
    return {"spec": ts, "true_guards": [cbid_of(g) for g in ts["guards"] if draw(st.booleans())], "how": draw(st.sampled_from(["deepcopy", "pickle"])),
            "on_twin": [(e, draw(st.sampled_from(["method", "send"]))) for e in draw(evs)], "on_base": draw(evs), "on_clone": draw(evs)}


@st.composite
def cases(draw, tier):
    provs = draw(st.sampled_from([("machine",), ("machine", "model"), ("machine", "model", "l0")]))
    async_mode = draw(st.sampled_from(["none", "none", "all", "mixed"]))
    spec = draw(gen.machine_spec(max_states=4, max_extra=5, providers=provs, async_mode=async_mode, sends=draw(st.sampled_from([False, False, True])), instance_cbs=True))
    if draw(st.booleans()):
        from .c15 import plan

        bundles = draw(gen.add_bundle(spec))
        spec["style"] = draw(plan(spec, bundles, any(c["scope"][0] == "state" and c["attach"] != "conv" for c in spec["cbs"]), extend=True))
    other = draw(gen.machine_spec(max_states=3, max_extra=4, providers=provs, async_mode=draw(st.sampled_from(["none", "all"])), sends=False))
    # the unrelated definition uses the very same callback names where it can
    is_async = gen.is_async_spec(spec)
    cfg = {"rtc": True if is_async else draw(st.sampled_from([True, True, False])), "allow": draw(st.booleans()),
           "driver": draw(st.sampled_from(["sync", "sync", "loop"])), "activate": True}
    conv_names = sorted({c["name"] for c in spec["cbs"] if c["attach"] == "conv"} | {f"before_{e}" for e in spec["events"]} | {"on_enter_state", "after_transition"})
    hist = []
    have_sib = False
    can_drive = not is_async and cfg["driver"] == "sync"
    if can_drive and draw(st.booleans()):
        hist.append({"op": "sibling", "allow": draw(st.booleans())})
        have_sib = True
    for step in draw(gen.history(spec, max_steps=8 if tier == "quick" else 14)):
        r = draw(st.sampled_from(list(range(12)) + ([8, 9, 8, 9, 8, 9] if have_sib and can_drive else [])))
        if r < 2:
            hist.append({"op": "noise_class", "spec": 0, "variant": "flipped-async", "events": draw(st.lists(st.sampled_from(spec["events"]), max_size=3))})
        elif r < 4:
            hist.append({"op": "noise_class", "spec": 1, "variant": "other-definition", "events": draw(st.lists(st.sampled_from(other["events"]), max_size=3))})
        elif r < 6 and not have_sib:
            hist.append({"op": "sibling", "allow": draw(st.booleans())})
            have_sib = True
        elif r < 8:
            hist.append({"op": "noise_subclass", "names": draw(st.lists(st.sampled_from(conv_names), max_size=3, unique=True)),
                         "events": draw(st.lists(st.sampled_from(spec["events"]), max_size=3))})
        elif r < 10 and have_sib and not is_async and cfg["driver"] == "sync":
            evs = [{"ev": draw(st.sampled_from(spec["events"] + ["nope"])), "args": [], "kw": {"d": k}} for k in range(draw(st.integers(1, 2)))]
            hist.append({"op": "drive_from_callback", "events": evs, "then": step})
            continue
        if draw(st.integers(0, 9)) == 0:
            hist.append({"op": "deficient_instance"})
        if have_sib and draw(st.integers(0, 3)) == 0:
            step = dict(step, target="sib")
        elif draw(st.integers(0, 2)) == 0:
            step = dict(step, style="bound")  # through the trigger bound onto the shared target object
        hist.append(step)
    family = None
    if draw(st.integers(0, 3)) == 0:
        fs = [draw(gen.machine_spec(max_states=3, max_extra=2, providers=("machine",), async_mode="none", sends=False, attach=("conv", "name"))) for _ in range(2)]
        family = {"specs": fs, "order": draw(st.permutations(["Doc", "Legal", "Memo"]))}
    twin = draw(twin_case()) if draw(st.integers(0, 3)) == 0 else None
    return {"spec": spec, "cfg": cfg, "history": hist, "family": family, "twin": twin, "noise_specs": [flipped(spec), other], "driver_listener": not is_async, "sib_instance_cbs": draw(st.booleans()), "sib_late_as_ctor": draw(st.booleans()), "shared_target": draw(st.booleans()),
            **({"sib_start": draw(st.one_of(st.none(), st.integers(0, 3)))} if draw(st.booleans()) else {})}


def strategy(tier):
    return cases(tier)


def budget(tier):
    return 16 * 100 if tier == "quick" else 16 * 1500


def run_case(case):
    out = play_case(case, P, PROPERTY)
    if not out["ok"]:
        return out
    for fam in (mixin_family, shallow_twin, shared_defaults):
        bad, labels = fam(case)
        if bad is not None:
            return bad
        if labels:
            out["labels"] = sorted(set(out.get("labels", ())) | labels)
    return out
