"""C01 — transition selection follows the declared machine (see DESIGN.md section 4, C01)."""
from hypothesis import strategies as st

from .. import gen
from ..scenario import Play, play_case

PROPERTY = "C01"
LEVEL = "exploration"
RULE = (
    "case = generated valid machine (1-6 states, several candidates per (state,event), multi-event/self/internal transitions, "
    "cond/unless over guard names with re-drawn truthy/falsy valuations of any type, raising validators) x config "
    "(rtc x allow_event_without_transition x sync/async x driver) x history of <=25/40 sends incl. unknown events; oracle = reference "
    "interpreter (first enabled candidate in declaration order; validators abort; TransitionNotAllowed carries event+state). "
    "non-trivial = a step where a candidate before the winner was rejected, or all candidates were rejected, or a validator aborted, "
    "or the event was unknown/bound elsewhere; distinct = sha1 of the canonical JSON case"
)
ASSUMPTIONS = [
    "guards are side-effect free: which guards of a rejected candidate were evaluated is not asserted",
    "the same name is never both cond and unless of one transition (finding K8, probed separately)",
    "reference interpreter (vcheck/core.py Interp) is trusted; it shares no code with the library",
]
VALUES = [True, False, 1, 0, "yes", "", [0], [], None, 2.5, {"a": 1}, {}]


class P(Play):
    def on_step(self, i, step, obs, exp, before):
        st_ = self.interp.stats
        rejected = st_["rejected_candidates"] - before.get("rejected_candidates", 0)
        fired = st_["transitions"] - before.get("transitions", 0)
        if rejected and fired:
            self.labels.add("winner-not-first")
            self.nontrivial = True
        if rejected and not fired:
            self.labels.add("all-rejected")
            self.nontrivial = True
        if exp[0] == "exc":
            self.labels.add("exc:" + type(exp[1]).__name__)
            self.nontrivial = True
        if exp[0] == "ok" and not fired and not rejected:
            self.labels.add("tolerated-no-transition")
            self.nontrivial = True
        if self.is_async:
            self.labels.add("async:" + self.driver)
        if not self.rtc:
            self.labels.add("non-rtc")


@st.composite
def cases(draw, tier):
    async_mode = draw(st.sampled_from(["none", "none", "all", "mixed", "one"]))
    spec = draw(gen.machine_spec(max_states=6, async_mode=async_mode, sends=False, actions=draw(st.booleans()),
                                 providers=draw(st.sampled_from([("machine",), ("machine", "model"), ("machine", "model", "l0")]))))
    if draw(st.integers(0, 2)) == 0:
        # selection must not depend on how the transitions were declared (from_.any(), id-less Event objects, a.to(b, c) ...)
        from .c15 import plan

        bundles = draw(gen.add_bundle(spec))
        spec["style"] = draw(plan(spec, bundles, any(c["scope"][0] == "state" and c["attach"] != "conv" for c in spec["cbs"])))
    is_async = gen.is_async_spec(spec)
    rtc = True if is_async else draw(st.booleans())
    if is_async and draw(st.integers(0, 19)) == 0:
        rtc = False  # must be rejected at construction
    cfg = {"rtc": rtc, "allow": draw(st.booleans()),
           "driver": draw(st.sampled_from(["sync", "loop", "sync", "threads"])) if is_async else draw(st.sampled_from(["sync", "sync", "loop"])),
           "activate": draw(st.booleans())}
    hist = draw(gen.history(spec, max_steps=25 if tier == "quick" else 40))
    pool = VALUES
    for step in hist:
        for k in list(step["val"]):
            if "@" in k and not k.startswith("v"):
                truthy = step["val"][k]
                step["val"][k] = draw(st.sampled_from([v for v in pool if bool(v) == bool(truthy)]))
        if draw(st.integers(0, 9)) < 3:
            step["style"] = "method"
    return {"spec": spec, "cfg": cfg, "history": hist}


def strategy(tier):
    return cases(tier)


def budget(tier):
    return 16 * 120 if tier == "quick" else 16 * 2500


def run_case(case):
    return play_case(case, P, PROPERTY)
