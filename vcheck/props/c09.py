"""C09 — class-definition validation accepts exactly the well-formed machines (DESIGN.md 4/C09)."""
import types
import warnings

from hypothesis import strategies as st

from statemachine import State, StateMachine
from statemachine.exceptions import InvalidDefinition

from ..scenario import outcome

PROPERTY = "C09"
LEVEL = "exploration"
RULE = (
    "exhaustive part: EVERY definition over n states = every edge set (self-loops included) x every initial-flag set x every final-flag set x "
    "strict_states on/off, for n = 1..3 (66 064 definitions; quick and thorough), the same with any subset of the self-loops declared internal for n <= 2 (n = 3 in thorough), and n = 4 with exactly one initial state (8 388 608; thorough); "
    "generated part (Hypothesis): n <= 5, edge multiplicities, shared/multi-event names, from_.any() targets, internal transitions (self and "
    "non-self), states declared in a shuffled order, classes with states but no events and events but no registered states. Oracle = independent "
    "set-based fixpoint computation: InvalidDefinition iff no state / no event / initial count != 1 / a transition leaves a final state / a "
    "non-self internal transition / a state unreachable from the initial one; otherwise accepted, and non-final states without outgoing "
    "transition or (when finals exist) without a path to a final state -> InvalidDefinition under strict_states, >=1 UserWarning otherwise, and "
    "no such warning when both sets are empty. non-trivial = definition with a cycle, a self-loop, a final state or whose verdict changes when "
    "all edges are reversed; every enumerated definition is distinct"
)
ASSUMPTIONS = ["the zero-state zero-event class is abstract by documentation and only checked to refuse instantiation"]
_ctr = [0]


# ---------------------------------------------------------------- oracle (independent of the library)
def closure(start, succ, n):
    seen = set(start)
    changed = True
    while changed:
        changed = False
        for a in range(n):
            if a in seen:
                for b in succ[a]:
                    if b not in seen:
                        seen.add(b)
                        changed = True
    return seen


def verdict(n, edges, initial, final, strict, has_events=True, bad_internal=False, registered=True):
    """-> ("invalid", reason) | ("ok", warn: bool)"""
    if bad_internal:
        return ("invalid", "internal transition that is not a self-transition")
    if not registered or n == 0:
        return ("invalid", "no states") if has_events else ("abstract", None)
    if not has_events:
        return ("invalid", "no events")
    if len(initial) != 1:
        return ("invalid", "initial count")
    succ = {a: {b for (x, b) in edges if x == a} for a in range(n)}
    if any(succ[f] for f in final):
        return ("invalid", "transition from final")
    reach = closure(initial, succ, n)
    if len(reach) != n:
        return ("invalid", "unreachable")
    traps = {a for a in range(n) if a not in final and not succ[a]}
    nopath = set()
    if final:
        pred = {a: {x for (x, b) in edges if b == a} for a in range(n)}
        can = closure(final, pred, n)
        nopath = {a for a in range(n) if a not in final and a not in can}
    if traps or nopath:
        return ("invalid", "strict") if strict else ("ok", True)
    return ("ok", False)


# ---------------------------------------------------------------- system under test
def build(case):
    n, strict = case["n"], case["strict"]
    order = case.get("order") or list(range(n))
    _ctr[0] += 1
    ns = {}
    S = {}
    for i in order:
        S[i] = State(initial=i in case["initial"], final=i in case["final"])
    registered = case.get("registered", True)
    if registered:
        for i in order:
            ns[f"s{i}"] = S[i]
    for k, e in enumerate(case["edges"]):
        a, b = e[0], e[1]
        ev = e[2] if len(e) > 2 else f"e{a}{b}"
        internal = bool(e[3]) if len(e) > 3 else False
        style = e[4] if len(e) > 4 else "to"
        if style == "attr":
            tl = S[a].to(S[b], internal=internal) if internal else S[a].to(S[b])
            key = f"{ev}"
            ns[key] = (ns[key] | tl) if key in ns else tl
        elif style == "from":
            S[b].from_(S[a], event=ev, **({"internal": True} if internal else {}))
        else:
            S[a].to(S[b], event=ev, **({"internal": True} if internal else {}))
    for k, (b, ev) in enumerate(case.get("any", [])):
        ns[ev] = S[b].from_.any()
    kwds = {"strict_states": True} if strict else {}
    with warnings.catch_warnings(record=True) as w:
        warnings.simplefilter("always")
        try:
            # one class name for all: the library keeps every class it ever saw in a process-global registry keyed by name
            cls = types.new_class("Def", (StateMachine,), kwds, lambda d: d.update(ns))
            res = ("ok", cls)
        except InvalidDefinition as e:
            res = ("invalid", str(e))
        except Exception as e:  # the class statement may only raise InvalidDefinition
            res = ("crash", f"{type(e).__name__}: {e}")
    uw = [x for x in w if issubclass(x.category, UserWarning)]  # whatever its wording
    return res, uw


def expand_any(case):
    """from_.any() == explicit transitions from every non-final state (documented)."""
    edges = [tuple(e[:2]) for e in case["edges"]]
    for b, ev in case.get("any", []):
        edges += [(a, b) for a in range(case["n"]) if a not in case["final"]]
    return edges


def run_case(case):
    n = case["n"]
    bad_internal = any(len(e) > 3 and e[3] and e[0] != e[1] for e in case["edges"])
    try:
        res, uw = build(case)
    except InvalidDefinition as e:  # raised while building the class body (internal non-self transition)
        res, uw = ("invalid", str(e)), []
    edges = set(expand_any(case))
    declared = bool(case["edges"]) or bool(case.get("any"))  # an event may be declared without ending up with a transition
    if not case.get("registered", True):
        # states that are not class attributes: only events assigned as class attributes are visible to the class
        declared = any(len(e) > 4 and e[4] == "attr" for e in case["edges"]) or bool(case.get("any"))
    exp = verdict(n, edges, set(case["initial"]), set(case["final"]), case["strict"], has_events=declared, bad_internal=bad_internal, registered=case.get("registered", True))
    labels = ["expected:" + exp[0] + (":" + str(exp[1]) if exp[0] == "invalid" else ":warn" if exp[1] else "")]
    nt = bool(case["final"]) or any(e[0] == e[1] for e in edges) or has_cycle(n, edges) or direction_sensitive(case, edges, exp)
    if res[0] == "crash":
        return outcome(False, "C09:wrong-exception-type", f"class statement raised {res[1]} (expected {'InvalidDefinition' if exp[0] == 'invalid' else 'acceptance'}): {short(case)}", labels=labels)
    if exp[0] == "abstract":
        if res[0] != "ok":
            return outcome(False, "C09:abstract-rejected", f"class without states and events raised {res[1]}", labels=labels)
        try:
            res[1]()
        except InvalidDefinition:
            return outcome(True, nontrivial=False, labels=labels)
        return outcome(False, "C09:abstract-instantiated", "class without states and events could be instantiated", labels=labels)
    if exp[0] == "invalid":
        if res[0] != "invalid":
            return outcome(False, "C09:accepted-invalid", f"definition accepted but is invalid ({exp[1]}): {short(case)}", labels=labels)
        return outcome(True, nontrivial=nt, labels=labels)
    if res[0] != "ok":
        return outcome(False, "C09:rejected-valid", f"well-formed definition rejected with {res[1]!r}: {short(case)}", labels=labels)
    if exp[1] and not uw:
        return outcome(False, "C09:missing-warning", f"no warning for trap / no-path-to-final states: {short(case)}", labels=labels)
    if not exp[1] and uw:
        return outcome(False, "C09:spurious-warning", f"warning {str(uw[0].message)!r} for a clean definition: {short(case)}", labels=labels)
    return outcome(True, nontrivial=nt, labels=labels)


def short(case):
    return {k: case[k] for k in ("n", "edges", "initial", "final", "strict", "any", "order", "registered") if k in case}


def has_cycle(n, edges):
    succ = {a: {b for (x, b) in edges if x == a} for a in range(n)}
    return any(a in closure(succ[a], succ, n) for a in range(n))


def direction_sensitive(case, edges, exp):
    rev = {(b, a) for a, b in edges}
    return verdict(case["n"], rev, set(case["initial"]), set(case["final"]), case["strict"], has_events=bool(rev))[0] != exp[0]


# ---------------------------------------------------------------- exhaustive enumeration
def space(n, one_initial=False, internal=False):
    return (2 ** (n * n)) * (n if one_initial else 2 ** n) * (2 ** n) * 2 * (2 ** n if internal else 1)


def nth(n, idx, one_initial=False, internal=False):
    strict = bool(idx & 1)
    idx >>= 1
    imask_int = 0
    if internal:  # which of the self-loops (where present) are internal transitions
        imask_int = idx & (2 ** n - 1)
        idx >>= n
    fmask = idx & (2 ** n - 1)
    idx >>= n
    if one_initial:
        ini = [idx % n]
        idx //= n
    else:
        imask = idx & (2 ** n - 1)
        idx >>= n
        ini = [i for i in range(n) if imask >> i & 1]
    edges = [[a, b] for a in range(n) for b in range(n) if idx >> (a * n + b) & 1]
    if internal:
        if not any(a == b and imask_int >> a & 1 for a, b in edges) or any(imask_int >> a & 1 and [a, a] not in edges for a in range(n)):
            return None  # duplicate of a definition without internal transitions / bit set for an absent self-loop
        edges = [[a, b, f"e{a}{b}", True] if a == b and imask_int >> a & 1 else [a, b] for a, b in edges]
    return {"n": n, "edges": edges, "initial": ini, "final": [i for i in range(n) if fmask >> i & 1], "strict": strict}


def extra(tier, seed, shard, nshards):
    plan = [(1, False, False), (2, False, False), (3, False, False), (1, False, True), (2, False, True)]
    plan += [(3, False, True), (4, True, False)] if tier == "thorough" else []
    total = nt = 0
    labels = {}
    sample = None
    for n, one, internal in plan:
        sp = space(n, one, internal)
        for idx in range(shard, sp, nshards):
            case = nth(n, idx, one, internal)
            if case is None:
                continue
            out = run_case(case)
            total += 1
            if not out["ok"]:
                yield case, out
                return
            # (enumerated definitions are pairwise distinct by construction: they are counted, not hashed one by one)
            if out["nontrivial"]:
                nt += 1
                if sample is None or (nt % 9973 == 0):
                    sample = case
            for lab in out["labels"]:
                labels[lab] = labels.get(lab, 0) + 1
    if sample is not None:
        yield sample, outcome(True, nontrivial=False, labels=["sample-of-the-enumeration"])
    yield None, dict({"exhaustive_definitions": total, "exhaustive_nontrivial": nt, "exhaustive": True}, **{"enum:" + k: v for k, v in labels.items()})


# ---------------------------------------------------------------- generated family
@st.composite
def cases(draw, tier):
    n = draw(st.integers(1, 5))
    idx = st.integers(0, n - 1)
    ini = draw(st.sampled_from([[0], [0], [0], [], [0, 1] if n > 1 else [0]])) if draw(st.integers(0, 5)) == 0 else [draw(idx)]
    final = draw(st.lists(idx, unique=True, max_size=2))
    events = ["go", "back", "tick"]
    edges = []
    for _ in range(draw(st.integers(0, 9))):
        a, b = draw(idx), draw(idx)
        if draw(st.integers(0, 3)) == 0:
            b = a
        internal = draw(st.integers(0, 9)) == 0 if a != b else draw(st.integers(0, 3)) == 0
        edges.append([a, b, draw(st.sampled_from(events)), internal, draw(st.sampled_from(["to", "to", "from", "attr"]))])
    # bias towards connected machines: spanning edges from a random order
    if draw(st.booleans()) and n > 1:
        perm = draw(st.permutations(list(range(n))))
        if ini and len(ini) == 1:
            perm = ini + [p for p in perm if p != ini[0]]
        for k in range(1, n):
            edges.append([perm[draw(st.integers(0, k - 1))], perm[k], draw(st.sampled_from(events)), False, "to"])
    anys = []
    if draw(st.integers(0, 3)) == 0:
        anys.append([draw(idx), "anyev"])
    case = {"n": n, "edges": edges, "initial": sorted(set(ini)), "final": sorted(final), "strict": draw(st.booleans()), "any": anys,
            "order": list(draw(st.permutations(list(range(n)))))}
    if draw(st.integers(0, 19)) == 0:
        case["registered"] = False
    return case


def strategy(tier):
    return cases(tier)


def budget(tier):
    return 16 * 300 if tier == "quick" else 16 * 6000


def evidence_hook(cov):
    cov["evaluations"] += cov.get("exhaustive_definitions", 0)
    cov["distinct_nontrivial"] += cov.get("exhaustive_nontrivial", 0)
    return cov
