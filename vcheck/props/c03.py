"""C03 — run-to-completion: nested events are queued, FIFO, never interleaved (DESIGN.md 4/C03)."""
from hypothesis import strategies as st

from .. import gen
from ..core import Mismatch
from ..scenario import Fail, Play, outcome, play_case

PROPERTY = "C03"
LEVEL = "exploration"
RULE = (
    "case A = generated machine whose callbacks (any group, any provider, initial enter included) carry scripted nested sends with unique payloads "
    "(fan-out <=2 per callback occurrence, events incl. unknown ones) x rtc on/off x sync/async x history; case B = self-triggering chain of "
    "generated length L (<=300 quick, <=5000 thorough; <=40 with rtc=False). Oracle = reference interpreter with an explicit FIFO queue parsing "
    "the callback log: no queued event starts before the running transition finished 'after'; queued events run one at a time in send order "
    "(identified by payload); nested call returns None and the outermost call the first event's result; with rtc=False nested events run "
    "immediately, depth-first and return their own result. Extra: call-stack depth read inside callbacks is constant per callback under RTC "
    "(for every chained event) and strictly grows with nesting under rtc=False. "
    "In a quarter of the sync cases a second machine of the class is sent events from inside this machine's callbacks and must process them at once, by itself. "
    "non-trivial = >=2 nested sends from >=2 different callbacks in one external step, or a send issued by a queued event, or a chain with L>=50"
)
ASSUMPTIONS = [
    "in machines with coroutine callbacks, nested sends are scripted in coroutine callbacks only (a plain function cannot await; finding K7)",
    "order of sends inside one callback group follows the observed order of the callbacks (documented as unspecified)",
    "reference interpreter trusted",
]


class P(Play):
    def __init__(self, case, rendered=None):
        super().__init__(case, rendered)
        self.case = dict(case, depth=True)

    def after_step(self, i, step, obs, ctx=None):
        self._log = list(self.H.log)
        super().after_step(i, step, obs, ctx)

    def on_step(self, i, step, obs, exp, before):
        it = self.interp
        sends = it.stats["nested_sends"] - before.get("nested_sends", 0)
        senders = {t[1] for t in self._log if t[0] == "S"}
        if sends >= 2 and len(senders) >= 2:
            self.nontrivial = True
            self.labels.add("multi-sender")
        if sends:
            self.labels.add("nested:rtc" if self.rtc else "nested:non-rtc")
            self.labels.add("async" if self.is_async else "sync")
        # a send issued while processing a queued (not the first) event
        if self.rtc and sends:
            first_payload = None
            for t in self._log:
                if t[0] == "B":
                    key = (t[3]["event"], tuple(t[3]["args"]), tuple(sorted(t[3]["kw"].items())))
                    if first_payload is None:
                        first_payload = key
                    self._cur = key
                if t[0] == "S" and getattr(self, "_cur", None) != first_payload:
                    self.nontrivial = True
                    self.labels.add("fan-out-from-queued-event")
        self.check_depth(i)

    def check_depth(self, i):
        depths = {}
        stack = []  # open callbacks in non-rtc nesting
        for t in self._log:
            if t[0] == "B":
                d = t[3].get("depth")
                if self.rtc:
                    # the event handed in by the caller may be dispatched from another frame than the queued ones: only the
                    # queued events (2nd occurrence on) must all run at one depth, however long the chain is
                    seq = depths.setdefault(t[1], [])
                    seq.append(d)
                    if len(seq) >= 3 and seq[-1] != seq[1]:
                        raise Fail("stack-grows", f"step {i}: callback {t[1]} ran at call-stack depths {seq[:6]}... in one run-to-completion pass (depth must not depend on the position in the queue)")
                else:
                    if stack and d <= stack[-1][1]:
                        raise Fail("not-nested", f"step {i}: {t[1]} (depth {d}) ran inside {stack[-1][0]} (depth {stack[-1][1]}) without a deeper stack")
                    stack.append((t[1], d))
            elif t[0] in ("E", "X") and not self.rtc and stack:
                stack.pop()
            elif t[0] == "R" and t[4] == "exc" and not self.rtc and stack:
                stack.pop()


@st.composite
def cases(draw, tier):
    if draw(st.integers(0, 9)) < 2:
        return draw(chain_case(tier))
    if draw(st.integers(0, 9)) < 1:
        return draw(nested_move_case(tier))
    provs = draw(st.sampled_from([("machine",), ("machine", "model"), ("machine", "model", "l0")]))
    async_mode = draw(st.sampled_from(["none", "none", "all", "mixed"]))
    spec = draw(gen.machine_spec(max_states=4, max_extra=6, providers=provs, async_mode=async_mode, sends=True, validators=False,
                                 rets=[None, None, None, None] + gen.RET_POOL))
    if draw(st.booleans()):
        # many events whose own result is None next to events that return values: "first result" must not be confused with "first non-None"
        for c in spec["cbs"]:
            if c["group"] in ("before", "on") and (c["scope"][0] != "trans" or draw(st.integers(0, 9)) < 6):
                c["ret"] = None
    is_async = gen.is_async_spec(spec)
    cfg = {"rtc": True if is_async else draw(st.booleans()), "allow": draw(st.sampled_from([True, True, False])),
           "driver": draw(st.sampled_from(["sync", "loop"])), "activate": draw(st.booleans())}
    hist = draw(gen.history(spec, max_steps=6 if tier == "quick" else 10))
    case = {"spec": spec, "cfg": cfg, "history": hist}
    if not is_async and cfg["driver"] == "sync" and cfg["rtc"] and draw(st.integers(0, 3)) == 0:
        # a second machine is sent events from inside this machine's callbacks: each machine has its own queue
        case["driver_listener"] = True
        out = [{"op": "sibling", "allow": True}]
        for step in hist:
            if draw(st.booleans()):
                evs = [{"ev": draw(st.sampled_from(spec["events"])), "args": [], "kw": {"d": k}} for k in range(draw(st.integers(1, 2)))]
                out.append({"op": "drive_from_callback", "events": evs, "then": step})
            else:
                out.append(step)
        case["history"] = out
    return case


@st.composite
def nested_move_case(draw, tier):
    """rtc=False: a callback of a self / internal transition sends an event that moves the machine; when the outer transition
    goes on it enters its own target again.  With rtc=True the same script must queue the move."""
    rtc = draw(st.sampled_from([False, False, True]))
    grp = draw(st.sampled_from(["before", "exit", "on", "enter", "after"]))
    internal = grp in ("before", "on", "after") and draw(st.integers(0, 3)) == 0
    name = {"before": "before_loop", "exit": "on_exit_s0", "on": "on_loop", "enter": "on_enter_s0", "after": "after_loop"}[grp]
    scope = ["event", "loop"] if grp in ("before", "on", "after") else ["state", 0]
    prov = draw(st.sampled_from(["machine", "model"]))
    occ = "1" if grp == "enter" else "0"  # (occurrence 0 of an enter callback of the initial state is the activation)
    cbs = [{"name": name, "group": grp, "scope": scope, "attach": "conv", "prov": prov, "async": False, "yields": 0, "ret": draw(st.sampled_from([None, "r"])),
            "sends": {occ: [["move", [], {"n": 1}]]}},
           {"name": "on_enter_s1", "group": "enter", "scope": ["state", 1], "attach": "conv", "prov": "machine", "async": False, "yields": 0, "ret": None, "sends": {}},
           {"name": "after_transition", "group": "after", "scope": ["generic"], "attach": "conv", "prov": "machine", "async": False, "yields": 0, "ret": None, "sends": {}}]
    spec = {"states": [{"id": "s0", "initial": True, "final": False}, {"id": "s1", "initial": False, "final": False}],
            "trans": [{"src": 0, "dst": 0, "events": ["loop"], "internal": internal, "cond": [], "unless": []},
                      {"src": 0, "dst": 1, "events": ["move"], "internal": False, "cond": [], "unless": []},
                      {"src": 1, "dst": 0, "events": ["back", "loop"], "internal": False, "cond": [], "unless": []},
                      {"src": 1, "dst": 1, "events": ["move"], "internal": False, "cond": [], "unless": []}],
            "cbs": cbs, "guards": [], "events": ["loop", "move", "back"]}
    hist = [{"val": {}, "ev": e, "args": [], "kw": {}, "style": "send"} for e in draw(st.lists(st.sampled_from(["loop", "loop", "move", "back"]), min_size=1, max_size=5))]
    hist.insert(0, {"val": {}, "ev": "loop", "args": [], "kw": {}, "style": "send"})
    return {"spec": spec, "cfg": {"rtc": rtc, "allow": True, "driver": "sync", "activate": True}, "history": hist}


@st.composite
def chain_case(draw, tier):
    rtc = draw(st.sampled_from([True, True, True, False]))
    is_async = rtc and draw(st.booleans())
    L = draw(st.one_of(st.integers(1, 12), st.integers(50, 300 if tier == "quick" else 5000))) if rtc else draw(st.one_of(st.integers(1, 5), st.integers(6, 40)))
    n = draw(st.integers(1, 3))
    grp = draw(st.sampled_from(["before", "on", "after", "enter", "exit"]))
    states = [{"id": f"s{i}", "initial": i == 0, "final": False} for i in range(n)]
    trans = [{"src": i, "dst": (i + 1) % n, "events": ["tick"], "internal": False, "cond": [], "unless": []} for i in range(n)]
    name = {"before": "before_tick", "on": "on_tick", "after": "after_tick", "enter": "on_enter_state", "exit": "on_exit_state"}[grp]
    scope = ["event", "tick"] if grp in ("before", "on", "after") else ["generic"]
    cb = {"name": name, "group": grp, "scope": scope, "attach": "conv", "prov": draw(st.sampled_from(["machine", "model"])), "async": is_async,
          "yields": draw(st.integers(0, 1)) if is_async else 0, "ret": draw(st.sampled_from([None, "r", 0])),
          "sends": {"*": {"upto": L, "items": [["tick", [], {"chain": True}]]}}}
    other = {"name": "after_transition", "group": "after", "scope": ["generic"], "attach": "conv", "prov": "machine", "async": is_async, "yields": 0, "ret": None, "sends": {}}
    spec = {"states": states, "trans": trans, "cbs": [cb, other], "guards": [], "events": ["tick"]}
    return {"spec": spec, "cfg": {"rtc": rtc, "allow": False, "driver": draw(st.sampled_from(["sync", "loop"])), "activate": True},
            "history": [{"val": {}, "ev": "tick", "args": [], "kw": {}, "style": "send"}, {"val": {}, "ev": "tick", "args": [], "kw": {"n": 1}, "style": "method"}],
            "chain": L}


def strategy(tier):
    return cases(tier)


def budget(tier):
    return 16 * 100 if tier == "quick" else 16 * 1500


def run_case(case):
    out = play_case(case, P, PROPERTY)
    if "chain" in case and out["ok"]:
        out["labels"].append("chain:L>=50" if case["chain"] >= 50 else "chain:short")
        out["labels"].append("chain:rtc" if case["cfg"]["rtc"] else "chain:non-rtc")
        if case["chain"] >= 50:
            out["nontrivial"] = True
    return out
