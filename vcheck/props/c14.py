"""C14 — event results come only from before/on return values, by the documented rule (DESIGN.md 4/C14)."""
from hypothesis import strategies as st

from .. import gen
from ..core import cbid_of
from ..scenario import Play, play_case

PROPERTY = "C14"
LEVEL = "exploration"
RULE = (
    "case = generated machine with 0-4 before and 0-4 on callbacks per transition (convention, inline by name / function, decorator, on machine, "
    "model, listeners; the same method in two groups) returning drawn values (None, 0, '', [], lists, tuples, dicts, nested), plus value-returning "
    "decoys in validators/exit/enter/after and truthy guards; internal/self/multi-event transitions, tolerated no-op events, nested sends (the "
    "outermost call returns the first event's result), both engines. Oracle: None if no before/on callback ran, the value itself if exactly one, "
    "else a list whose first |before| items are a permutation of the before values and the rest a permutation of the on values; "
    "non-trivial = a step whose result has exactly one contributing callback returning a list/None/falsy value, or >=2 contributions spanning both "
    "groups, or an event-filtered callback on a multi-event transition, or a queued event after a None first result"
)
ASSUMPTIONS = ["order of results inside the before part and inside the on part is not asserted", "reference interpreter trusted"]


class P(Play):
    def on_step(self, i, step, obs, exp, before):
        if exp[0] != "ok" or exp[1] is None:
            if exp[0] == "ok":
                self.labels.add("no-transition:None")
            return
        r = exp[1]
        nb, no = len(r.before), len(r.on)
        self.labels.add(f"contrib:{min(nb, 3)}b+{min(no, 3)}o")
        if nb + no == 1 and not (r.before + r.on)[0]:
            self.nontrivial = True
            self.labels.add("single-falsy-or-None")
        if nb and no:
            self.nontrivial = True
        it = self.interp
        if it.fired:
            t = self.spec["trans"][it.fired[-1]]
            if len(t["events"]) > 1 and any(c["scope"][0] == "event" and c["scope"][1] in t["events"] and c["scope"][1] != step["ev"] for c in self.spec["cbs"]):
                self.nontrivial = True
                self.labels.add("event-filtered-callback")
        if it.stats["nested_sends"] - before.get("nested_sends", 0) and nb + no == 0:
            self.nontrivial = True
            self.labels.add("None-first-result-then-queued-events")


RETS = gen.RET_POOL + [[1, [2, {"$t": [3]}]], {"a": [None]}, 0.0, "0", [[]], {"$t": [None, None]}]


@st.composite
def queued_result_case(draw, tier):
    """An event whose own result is None (or comes from exactly one callback returning None / a falsy value) queues an
    event whose callbacks return values: the caller must still get the FIRST event's result."""
    is_async = draw(st.booleans())
    first_ret = draw(st.sampled_from(["absent", "absent", None, 0, "", []]))
    grp = draw(st.sampled_from(["after", "enter", "exit", "on", "before"]))
    cbs = []

    def cb(name, group, scope, ret=None, sends=None, attach="conv"):
        cbs.append({"name": name, "group": group, "scope": scope, "attach": attach, "prov": draw(st.sampled_from(["machine", "model"])), "async": is_async,
                    "yields": draw(st.integers(0, 1)) if is_async else 0, "ret": ret, "sends": sends or {}})

    sender_name = {"after": "after_e1", "enter": "on_enter_s1", "exit": "on_exit_s0", "on": "on_e1", "before": "before_e1"}[grp]
    sender_scope = {"after": ["event", "e1"], "enter": ["state", 1], "exit": ["state", 0], "on": ["event", "e1"], "before": ["event", "e1"]}[grp]
    sender_ret = first_ret if grp in ("on", "before") and first_ret != "absent" else None
    if grp in ("on", "before") and first_ret == "absent":
        first_ret = None  # the sending callback itself is the single contributor and returns None
        sender_ret = None
    cb(sender_name, grp, sender_scope, ret=sender_ret, sends={"0": [["e2", [], {"n": 1}]], "1": [["e2", [], {"n": 2}]]})
    if first_ret != "absent" and grp not in ("on", "before"):
        cb("t0_on0", "on", ["trans", [0]], ret=first_ret, attach="name")
    for j in range(draw(st.integers(1, 3))):
        cb(f"t1_{'on' if j % 2 else 'before'}{j}", "on" if j % 2 else "before", ["trans", [1]], ret=draw(st.sampled_from(["v", 7, [1], {"k": 1}, "finished"])), attach="name")
    cb("after_transition", "after", ["generic"], ret="decoy")
    spec = {"states": [{"id": "s0", "initial": True, "final": False}, {"id": "s1", "initial": False, "final": False}],
            "trans": [{"src": 0, "dst": 1, "events": ["e1"], "internal": False, "cond": [], "unless": []},
                      {"src": 1, "dst": 0, "events": ["e2"], "internal": False, "cond": [], "unless": []}],
            "cbs": cbs, "guards": [], "events": ["e1", "e2"]}
    cfg = {"rtc": True, "allow": draw(st.booleans()), "driver": draw(st.sampled_from(["sync", "loop"])), "activate": True}
    hist = [{"val": {}, "ev": "e1", "args": [], "kw": {}, "style": draw(st.sampled_from(["send", "method"]))},
            {"val": {}, "ev": "e1", "args": [], "kw": {"n": 9}, "style": "send"}]
    return {"spec": spec, "cfg": cfg, "history": hist}


@st.composite
def cases(draw, tier):
    if draw(st.integers(0, 9)) < 2:
        return draw(queued_result_case(tier))
    provs = draw(st.sampled_from([("machine",), ("machine", "model"), ("machine", "model", "l0", "l1"), ("machine", "l0", "late0")]))
    late = tuple(p for p in provs if p.startswith("late"))
    async_mode = draw(st.sampled_from(["none", "none", "all", "mixed"]))
    spec = draw(gen.machine_spec(max_states=3, max_extra=4, providers=provs, late=late, async_mode=async_mode, sends=draw(st.sampled_from([False, True, True])),
                                 shared_names=True, rets=RETS, validators=True))
    mode = draw(st.sampled_from(["dense", "sparse", "sparse", "mixed"]))
    if mode != "dense":
        # silent transitions (no before/on at all) next to value-returning ones: first result None, later results not
        silent = {k for k in range(len(spec["trans"])) if mode == "sparse" or draw(st.booleans())}
        spec["cbs"] = [c for c in spec["cbs"] if not (c["group"] in ("before", "on") and (c["scope"][0] in ("generic", "event") or set(c["scope"][1]) & silent))]
    counts = [0, 1, 2, 3] if mode == "dense" else [0, 0, 0, 1, 2]
    # densify before/on
    extra = []
    names = {(c["name"], c["prov"]) for c in spec["cbs"]}
    for k, t in enumerate(spec["trans"]):
        for grp in ("before", "on"):
            for j in range(draw(st.sampled_from(counts))):
                att = draw(st.sampled_from(["name", "func", "deco"]))
                prov = "free" if att == "func" else "machine" if att == "deco" else draw(st.sampled_from([p_ for p_ in provs if not p_.startswith("late")]))
                nm = f"x{k}_{grp}{j}"
                if (nm, prov) in names:
                    continue
                names.add((nm, prov))
                extra.append({"name": nm, "group": grp, "scope": ["trans", [k]], "attach": att, "prov": prov, "async": async_mode == "all",
                              "yields": 0, "ret": draw(st.sampled_from(RETS)), "sends": {}})
    spec["cbs"] += extra
    # listeners / models that are falsy objects (an empty recorder with __len__) contribute their results like any other
    spec["falsy_providers"] = [p for p in provs if p != "machine" and draw(st.integers(0, 3)) == 0]
    is_async = gen.is_async_spec(spec)
    cfg = {"rtc": True if is_async else draw(st.sampled_from([True, True, False])), "allow": draw(st.booleans()),
           "driver": draw(st.sampled_from(["sync", "loop"])), "activate": True}
    hist = draw(gen.history(spec, max_steps=6 if tier == "quick" else 10))
    out = []
    pending = list(late)
    for n_, step in enumerate(hist):  # mostly enabling valuations: results need executed transitions
        for k in list(step["val"]):
            if k.startswith("v"):
                step["val"][k] = False
        if draw(st.booleans()):
            step["style"] = "method"
        if pending and n_ > 0 and draw(st.booleans()):
            # a listener attached after events were already processed: from now on its before/on values are part of the results
            out.append({"op": "attach", "prov": pending.pop(0)})
        out.append(step)
    return {"spec": spec, "cfg": cfg, "history": out}


def strategy(tier):
    return cases(tier)


def budget(tier):
    return 16 * 150 if tier == "quick" else 16 * 3000


def run_case(case):
    return play_case(case, P, PROPERTY)
