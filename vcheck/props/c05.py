"""C05 — async callbacks behave exactly like their synchronous counterparts (DESIGN.md 4/C05)."""
import copy

from hypothesis import strategies as st

from .. import gen
from ..scenario import Play, outcome, play_case

PROPERTY = "C05"
LEVEL = "exploration"
RULE = (
    "case = scenario of C01-C04 (generated machine, guards, validators, all attach styles/providers incl. late listeners, scripted nested sends, "
    "optional injected failure) with an async mask over callbacks and method guards (all / exactly one / random subset; each coroutine yields 0-2 "
    "times to the loop) x driver (plain sync code without a loop, awaited inside asyncio.run, sync calls issued in turn from fresh threads) x "
    "explicit or deferred activation. Three-way oracle: the plain-function twin and the coroutine twin are each checked against the reference "
    "interpreter (phases, injected arguments, results, exceptions, states; every coroutine of a phase must have ended before a record of the next "
    "phase appears; deferred activation runs the initial enter phase before the first event) and their per-step observations are compared with "
    "each other; no 'coroutine ... was never awaited' warning may be emitted. "
    "non-trivial = mixed mask, or a coroutine that really yields, or a coroutine guard/validator"
)
ASSUMPTIONS = [
    "in a machine mixing plain and coroutine callbacks nested sends are scripted in coroutine callbacks only (K7)",
    "coroutine guards are not used as operands of boolean expressions nor provided by several objects (finding K1, probed separately)",
    "siblings of a failing coroutine inside its group may finish late; their records are discounted",
    "reference interpreter trusted",
]


class P(Play):
    def __init__(self, case, rendered=None):
        super().__init__(case, rendered)
        self.trace = []

    def on_step(self, i, step, obs, exp, before):
        val = self.sm.current_state_value
        if obs[0] == "ok":
            self.trace.append((repr(val), "ok", _norm(obs[1])))
        else:
            # which callback of a group raises first, and how often its siblings ran, depends on the order inside the group
            self.trace.append((repr(val), type(obs[1]).__name__, "" if type(obs[1]).__name__ == "Boom" else str(obs[1])))


def _norm(r):
    return sorted(map(repr, r)) if isinstance(r, list) else repr(r)


def sync_twin(spec):
    s = copy.deepcopy(spec)
    for c in s["cbs"]:
        c["async"], c["yields"] = False, 0
    for g in s.get("guards", []):
        g["async"] = False
    return s


def run_case(case):
    holder = {}

    def mk(tag):
        def f(c, r=None):
            holder[tag] = P(c, r)
            return holder[tag]
        return f

    out_a = play_case(case, mk("a"), PROPERTY)
    if not out_a["ok"]:
        return out_a
    twin = dict(case, spec=sync_twin(case["spec"]), cfg=dict(case["cfg"], driver="sync"))
    out_s = play_case(twin, mk("s"), PROPERTY)
    if not out_s["ok"]:
        out_s["detail"] = "plain-function twin: " + out_s["detail"]
        out_s["case"] = twin
        return out_s
    labels = set(out_a["labels"])
    # step-for-step comparison needs the same activation point: the coroutine twin is activated explicitly right after
    # construction (the plain twin is activated by its constructor); with deferred activation both are checked against
    # the interpreter only (its queue then holds '__initial__' followed by the first event)
    n = len(case["history"])  # (a plain twin whose activation fails has no machine object: nothing to compare)
    # ... and is independent of the (unspecified) order inside a group only if no callback sends nested events
    comparable = case["cfg"].get("activate") and not any(c.get("sends") for c in case["spec"]["cbs"]) and not case.get("faults")
    if comparable:
        labels.add("twins-compared-step-by-step")
    if comparable and "a" in holder and "s" in holder and len(holder["a"].trace) == n == len(holder["s"].trace) and holder["a"].trace != holder["s"].trace:
        ta, ts = holder["a"].trace, holder["s"].trace
        i = next((n for n, (x, y) in enumerate(zip(ta, ts)) if x != y), min(len(ta), len(ts)))
        return outcome(False, f"{PROPERTY}:twins-differ", f"step {i}: coroutine twin {ta[i:i+1]} vs plain twin {ts[i:i+1]}", labels=labels)
    spec = case["spec"]
    cbs = spec["cbs"] + spec.get("guards", [])
    n_async = sum(1 for c in cbs if c.get("async"))
    mixed = 0 < n_async < len(cbs)
    yields = any(c.get("async") and c.get("yields") for c in spec["cbs"])
    aguard = any(g.get("async") for g in spec.get("guards", [])) or any(c.get("async") and c["group"] == "validators" for c in spec["cbs"])
    labels.add("mask:" + ("none" if n_async == 0 else "all" if n_async == len(cbs) else "one" if n_async == 1 else "mixed"))
    labels.add("driver:" + case["cfg"]["driver"])
    if yields:
        labels.add("real-yields")
    if aguard:
        labels.add("async-guard-or-validator")
    if case.get("faults"):
        labels.add("with-fault")
    if case["cfg"].get("late"):
        labels.add("late-listener")
    labels.add("activation:explicit" if case["cfg"].get("activate") else "activation:deferred")
    st_ = dict(out_a["stats"])
    return outcome(True, nontrivial=bool(n_async) and (mixed or yields or aguard), labels=labels, stats=st_)


@st.composite
def cases(draw, tier):
    provs = draw(st.sampled_from([("machine",), ("machine", "model"), ("machine", "model", "l0"), ("machine", "model", "l0", "late0")]))
    late = tuple(p for p in provs if p.startswith("late"))
    async_mode = draw(st.sampled_from(["all", "mixed", "mixed", "one", "late-only"])) if late else draw(st.sampled_from(["all", "mixed", "mixed", "one"]))
    spec = draw(gen.machine_spec(max_states=4, max_extra=6, providers=provs, late=late, async_mode=async_mode, sends=draw(st.booleans()),
                                 shared_names=draw(st.booleans())))
    cfg = {"rtc": True, "allow": draw(st.booleans()), "driver": draw(st.sampled_from(["sync", "loop", "threads", "loop"])),
           "activate": draw(st.booleans()), "late": list(late)}
    hist = draw(gen.history(spec, max_steps=8 if tier == "quick" else 14))
    for step in hist:
        if draw(st.integers(0, 3)) == 0:
            step["style"] = "method"
    case = {"spec": spec, "cfg": cfg, "history": hist}
    if late and draw(st.booleans()):
        # a second instance of the class that gets the coroutine listener through its constructor (the first one got it late,
        # or not yet): each instance picks the way it runs callbacks by itself
        case["sib_late_as_ctor"] = True
        k = draw(st.integers(0, len(hist)))
        out = hist[:k] + [{"op": "sibling"}]
        for step in hist[k:]:
            out.append(dict(step, target="sib") if draw(st.booleans()) else step)
        case["history"] = out
    return case


def strategy(tier):
    return cases(tier)


def budget(tier):
    return 16 * 120 if tier == "quick" else 16 * 2000


def extra(tier, seed, shard, nshards):
    return []
