"""C07 — callbacks receive exactly the parameters they declare (DESIGN.md 4/C07)."""
import itertools
import types
import warnings
from functools import partial, wraps

from hypothesis import strategies as st

from statemachine import State, StateMachine

from ..scenario import outcome

PROPERTY = "C07"
LEVEL = "exploration"
RULE = (
    "case = callback signature built as source text from a drawn parameter list (0-2 positional-only, 0-3 positional-or-keyword, optional *args, "
    "0-3 keyword-only, optional **kwargs, defaults on any legal suffix, names drawn from the built-ins event_data/event/source/target/state/model/"
    "machine/transition and user names) x callback kind (method on machine / model / listener, free function, functools.partial, functools.wraps-decorated method, coroutine) x "
    "group (before/on/after/enter/exit/validators/cond, also as operand of a guard expression: 'not f', 'g and f', '!g or f', unless='f') x 6-8 call shapes (0-4 positional arguments, keyword arguments from user names and "
    "RESERVED names carrying decoy values; sent directly or forwarded by a parent callback with its own *args/**kwargs). Oracle = independent "
    "40-line binder implementing the statement with the pairing rule pinned by tests/test_signature.py; observed = locals() recorded by the "
    "callback (built-ins are checked by identity: machine is sm, event == the event being processed ...). Second family: two callables with the "
    "same __name__/__qualname__ and the same parameter names but different kinds / async-ness / partial application defined in unrelated "
    "classes, used alternately. non-trivial = call with more positionals than positional parameters, or a reserved-name keyword, or a "
    "keyword-only / positional-only parameter, or a forwarded call, or a colliding-name pair. Third family (round 6): one event with 2-4 candidate transitions to different "
    "targets whose earlier guards reject; every guard and the executed candidate's action (before/on/after/exit/enter/on_transition, sync or coroutine) must receive the "
    "source/target/transition/event_data of its own candidate, with and without user and reserved-name keyword arguments; non-trivial = an earlier candidate was rejected"
)
ASSUMPTIONS = [
    "a keyword equal to a positional-only parameter that no positional argument fills is not generated (the library raises TypeError on purpose; pinned by its tests)",
    "partials carry an explicit __name__ (a raw functools.partial cannot be attached at all)",
    "reserved names are sent through the event-method style (send() has a parameter called event)",
]
BUILTINS = ["event_data", "machine", "event", "model", "transition", "state", "source", "target"]
USER = ["a", "b", "x", "k", "n"]
UID = itertools.count()
SEEN = []


# ------------------------------------------------------------------------------------------ signature -> source
def sig_source(sig, fname, kind):
    params = sig["params"]
    po = [p for p in params if p[1] == "PO"]
    pk = [p for p in params if p[1] == "PK"]
    ko = [p for p in params if p[1] == "KO"]

    def fmt(p):
        return f"{p[0]}=('D','{p[0]}')" if p[2] else p[0]

    parts = []
    if kind in ("method", "async-method", "wrapped"):
        parts.append("self")
    elif kind == "partial":
        parts.append("bound_first")
    parts += [fmt(p) for p in po]
    if po:
        parts.append("/")
    parts += [fmt(p) for p in pk]
    if sig["var"]:
        parts.append("*varargs")
    elif ko:
        parts.append("*")
    parts += [fmt(p) for p in ko]
    if sig["kw"]:
        parts.append("**varkw")
    a = "async " if kind.startswith("async") else ""
    return (f"{a}def {fname}({', '.join(parts)}):\n"
            f"    SEEN.append(dict((k, v) for k, v in locals().items() if k not in ('self', 'bound_first')))\n"
            f"    return RET\n")


def expected(sig, args, user_kwargs):
    """The statement of C07 as a binder. Returns dict name -> value-tag | "TYPEERROR" | "EXCLUDED"."""
    avail = {k: ("USERVAL", v) for k, v in user_kwargs.items() if k not in BUILTINS}
    for b in BUILTINS:
        avail[b] = ("BI", b)
    params = sig["params"]
    pos = [p for p in params if p[1] in ("PO", "PK")]
    bound, consumed = {}, set()
    for idx, (n, kind, d) in enumerate(pos):
        if idx < len(args):
            if kind == "PK" and n in avail:
                bound[n] = avail[n]
                consumed.add(n)
            else:
                bound[n] = ("USERVAL", args[idx])
        elif n in avail:
            if kind == "PO":
                return "EXCLUDED"
            bound[n] = avail[n]
            consumed.add(n)
    if sig["var"]:
        bound["varargs"] = tuple(("USERVAL", a) for a in args[len(pos):])
    for (n, kind, d) in params:
        if kind == "KO" and n in avail:
            bound[n] = avail[n]
            consumed.add(n)
    if sig["kw"]:
        bound["varkw"] = {k: v for k, v in avail.items() if k not in consumed}
    for (n, kind, d) in params:
        if n not in bound:
            if d:
                bound[n] = ("D", n)
            else:
                return "TYPEERROR"
    return bound


def canon(sm, ev, name, v):
    def one(key, v):
        if key in BUILTINS:
            ok = {"machine": lambda: v is sm or v == sm, "model": lambda: v is sm.model, "event": lambda: str(v) == ev and not isinstance(v, tuple),
                  "source": lambda: v.id == "s", "target": lambda: v.id == "s", "state": lambda: v.id == "s",
                  "transition": lambda: v.source.id == "s" and ev in str(v.event), "event_data": lambda: v.transition.source.id == "s" and str(v.event) == ev}[key]
            try:
                if ok():
                    return ("BI", key)
            except Exception:
                pass
        if isinstance(v, tuple) and len(v) == 2 and v[0] == "D":
            return v
        return ("USERVAL", v)

    if name == "varargs":
        return tuple(("USERVAL", a) for a in v)
    if name == "varkw":
        return {k: one(k, x) for k, x in v.items()}
    return one(name, v)


def traced(f):
    """a typical user decorator built with functools.wraps"""

    @wraps(f)
    def wrapper(*args, **kwargs):
        return f(*args, **kwargs)

    return wrapper


# ------------------------------------------------------------------------------------------ system under test
def build(sig, kind, group, prov, fname, qual_prefix):
    """-> (sm, trigger name). The callback is attached to event 'go' on a single self-looping state."""
    src = sig_source(sig, fname, kind)
    env = {"SEEN": SEEN, "RET": True if group.startswith("cond") else "r"}
    exec(src, env)
    f = env[fname]
    f.__qualname__ = f"{qual_prefix}.{fname}"
    if kind == "wrapped":
        f = traced(f)  # every decorated callback shares the wrapper's code object; inspect follows __wrapped__
    ns = {"s": State(initial=True)}
    holder = {}
    inline = None
    if kind in ("function", "async-function"):
        inline = f
    elif kind == "partial":
        inline = partial(f, "BOUND")
        inline.__name__ = fname
    else:
        holder[fname] = f
    ref = inline if inline is not None else fname
    kw = {}
    if group in ("cond-not", "cond-and", "cond-or", "unless-name"):
        # the callback is named inside a guard *expression*: operands are called with the same argument injection
        holder[fname] = f
        holder["other_guard"] = lambda self: True
        if inline is not None:
            raise ValueError("expression operands are looked up by name")
        expr = {"cond-not": f"not {fname}", "cond-and": f"other_guard and {fname}", "cond-or": f"!other_guard or {fname}", "unless-name": fname}[group]
        ns["go"] = ns["s"].to.itself(**({"unless": expr} if group == "unless-name" else {"cond": expr}))
    elif group in ("before", "on", "after", "validators", "cond"):
        kw[group] = ref
        ns["go"] = ns["s"].to.itself(**kw)
    else:
        ns["s"] = State(initial=True, **{group: ref})
        ns["go"] = ns["s"].to.itself()

    def do_fwd(self, *args, **kwargs):
        return self.go(*args, **kwargs)

    async def do_fwd_async(self, *args, **kwargs):
        r = self.go(*args, **kwargs)
        if hasattr(r, "__await__"):
            r = await r
        return r

    is_async = kind.startswith("async")
    ns["fwd"] = ns["s"].to.itself(on="do_fwd")
    ns["do_fwd"] = do_fwd_async if is_async else do_fwd
    mns, lns = {}, {}
    if inline is None:
        {"machine": ns, "model": mns, "listener": lns}[prov].update(holder)
    cls = types.new_class(f"{qual_prefix}", (StateMachine,), {}, lambda d: d.update(ns))
    Model = type(f"{qual_prefix}_model", (), mns)
    L = type(f"{qual_prefix}_listener", (), lns)
    sm = cls(Model(), listeners=[L()], allow_event_without_transition=True)
    if is_async:
        sm.activate_initial_state()
    return sm


def run_calls(sm, sig, calls, group):
    """-> None | (signature, detail); also statistics."""
    stats = {"bindings": 0, "typeerrors": 0, "excluded": 0}
    nt = False
    for call in calls:
        args = tuple(call["args"])
        kwargs = dict(call["kwargs"])
        exp = expected(sig, args, kwargs)
        if exp == "EXCLUDED":
            stats["excluded"] += 1
            continue
        # the enter group also runs at activation with no arguments; only look at records of this call
        SEEN.clear()
        try:
            if call.get("forwarded"):
                sm.fwd(*args, **kwargs)
            else:
                sm.go(*args, **kwargs)
            got = SEEN[-1] if SEEN else "NOCALL"
            if len(SEEN) > 1:
                return ("C07:called-more-than-once", f"{len(SEEN)} invocations for one event: {SEEN!r}"), stats, nt
        except TypeError as e:
            got = "TYPEERROR"
            err = str(e)
        npos = len([p for p in sig["params"] if p[1] in ("PO", "PK")])
        if len(args) > npos or any(k in BUILTINS for k in kwargs) or any(p[1] in ("KO", "PO") for p in sig["params"]) or call.get("forwarded"):
            nt = True
        desc = f"signature {sig_source(sig, 'cb', 'method').splitlines()[0]} called with args={args!r} kwargs={kwargs!r}{' (forwarded by a parent callback)' if call.get('forwarded') else ''}"
        if exp == "TYPEERROR" or got in ("TYPEERROR", "NOCALL"):
            if exp != got:
                return ("C07:wrong-typeerror" if "TYPEERROR" in (exp, got) else "C07:not-called", f"{desc}: expected {exp!r}, got {got!r}{(' (' + err + ')') if got == 'TYPEERROR' else ''}"), stats, nt
            stats["typeerrors"] += 1
            continue
        g = {k: canon(sm, "go", k, v) for k, v in got.items()}
        if g != exp:
            diff = {k: (exp.get(k), g.get(k)) for k in set(exp) | set(g) if exp.get(k) != g.get(k)}
            return ("C07:wrong-binding", f"{desc}: differing parameters (expected, got): {diff!r}"), stats, nt
        stats["bindings"] += 1
    return None, stats, nt


def run_case(case):
    labels = set()
    with warnings.catch_warnings():
        warnings.simplefilter("ignore")
        uid = next(UID)
        if case["kind"] == "single":
            try:
                sm = build(case["sig"], case["cbkind"], case["group"], case["prov"], "cb", f"B{uid}")
            except TypeError as e:
                # an enter callback is also invoked by the initial activation, a call with no arguments at all
                exp0 = expected(case["sig"], (), {})
                if case["group"] == "enter" and exp0 in ("TYPEERROR", "EXCLUDED"):
                    return outcome(True, labels={"activation-call-cannot-bind"})
                return outcome(False, "C07:wrong-typeerror", f"construction raised TypeError({e}) for {sig_source(case['sig'], 'cb', 'method').splitlines()[0]} in group {case['group']}")
            bad, stats, nt = run_calls(sm, case["sig"], case["calls"], case["group"])
            labels |= {"kind:" + case["cbkind"], "group:" + case["group"], "prov:" + case["prov"]}
            if any(c.get("forwarded") for c in case["calls"]):
                labels.add("forwarded")
            if any(k in BUILTINS for c in case["calls"] for k in c["kwargs"]):
                labels.add("reserved-keyword-decoy")
            if bad:
                return outcome(False, bad[0], bad[1], labels=labels)
            return outcome(True, nontrivial=nt, labels=labels, stats=stats)
        if case["kind"] == "candidates":
            return run_candidates(case, uid)
        # colliding names: same function name, same qualname, same parameter names, different kinds
        qual = f"Coll{uid}"
        machines = []
        for i, var in enumerate(case["variants"]):
            sm = build(var["sig"], var["cbkind"], "on", var["prov"], "cb", qual)
            machines.append((sm, var))
        total = {"bindings": 0, "typeerrors": 0, "excluded": 0}
        for rnd in range(2):
            for sm, var in machines:
                bad, stats, _ = run_calls(sm, var["sig"], case["calls"], "on")
                for k, v in stats.items():
                    total[k] += v
                if bad:
                    return outcome(False, bad[0] + "-colliding-names", f"variant {var['cbkind']} (another callable shares its qualname and parameter names): {bad[1]}", labels={"colliding-names"})
        return outcome(True, nontrivial=True, labels={"colliding-names"} | {"kind:" + v["cbkind"] for v in case["variants"]}, stats=total)


def run_candidates(case, uid):
    """Second occurrence of "the built-in names always describe the event being processed": one event with several candidate
    transitions leaving the same state for *different* targets, the earlier candidates rejected by their guards.  Every guard
    and every action must receive the source / target / transition / event_data of the candidate it belongs to, with and
    without user keyword arguments (added after round 6, C07k)."""
    k = case["n"]
    is_async = case["async"]
    rec = []
    ns = {"s": State(initial=True)}
    for i in range(k):
        ns[f"t{i}"] = State()
    go = None
    for i in range(k):
        kw = {} if (i == k - 1 and case["last_unguarded"]) else {"cond": f"g{i}"}
        tr = ns["s"].to(ns[f"t{i}"], **kw)
        go = tr if go is None else (go | tr)
    ns["go"] = go
    back = None
    for i in range(k):
        tr = ns[f"t{i}"].to(ns["s"])
        back = tr if back is None else (back | tr)
    ns["back"] = back

    def mk_guard(i):
        def g(self, source, target, transition, event_data, a=None, **kw):
            rec.append(("guard", i, source.id, target.id, transition.target.id, event_data.target.id, event_data.transition is transition, a, sorted(kw)))
            return self.G[i]
        g.__name__ = g.__qualname__ = f"g{i}"
        return g

    def action(self, source, target, state, transition, event_data, event, machine, model, a=None, **kw):
        rec.append(("action", source.id, target.id, state.id, transition.source.id, transition.target.id, event_data.target.id, event_data.transition is transition,
                    str(event), machine is self, model is self.model, a, sorted(kw)))

    async def action_async(self, source, target, state, transition, event_data, event, machine, model, a=None, **kw):
        action(self, source, target, state, transition, event_data, event, machine, model, a=a, **kw)

    for i in range(k):
        ns[f"g{i}"] = mk_guard(i)
    cbname = {"before": "before_go", "on": "on_go", "after": "after_go", "exit": "on_exit_s", "enter": "on_enter_state", "generic": "on_transition"}[case["group"]]
    ns[cbname] = action_async if is_async else action
    cls = types.new_class(f"Cand{uid}", (StateMachine,), {}, lambda d: d.update(ns))
    sm = cls(allow_event_without_transition=True)
    sm.G = [False] * k
    if is_async:
        sm.activate_initial_state()
    labels = {"candidates", "candidates:" + case["group"]}
    nt = False
    n_calls = 0
    for call in case["calls"]:
        G = list(call["G"])[:k] + [False] * (k - len(call["G"]))
        sm.G = G
        kwargs = dict(call["kwargs"])
        if sm.current_state.id != "s":
            sm.back()
        rec.clear()
        sm.go(*call["args"], **kwargs)
        chosen = next((i for i in range(k) if G[i] or (i == k - 1 and case["last_unguarded"])), None)
        a = kwargs.get("a")
        extra = sorted(x for x in kwargs if x not in BUILTINS and x != "a")
        n_guards = k if chosen is None else chosen + 1
        if case["last_unguarded"] and chosen == k - 1:
            n_guards = k - 1
        gextra = sorted(extra + ["event", "machine", "model", "state"])  # **kw takes the built-ins the guard does not name
        want = [("guard", i, "s", f"t{i}", f"t{i}", f"t{i}", True, a, gextra) for i in range(n_guards)]
        desc = f"{k} candidate transitions s->t0..t{k-1} of one event, guards {G}{' (last unguarded)' if case['last_unguarded'] else ''}, sent with args={tuple(call['args'])!r} kwargs={kwargs!r}"
        got_guards = [r for r in rec if r[0] == "guard"]
        if got_guards != want:
            return outcome(False, "C07:wrong-binding-candidate", f"{desc}: guards received (kind, i, source, target, transition.target, event_data.target, same transition, a, **kw) = {got_guards!r}, expected {want!r}", labels=labels)
        got_actions = [r for r in rec if r[0] == "action"]
        if chosen is None:
            if got_actions:
                return outcome(False, "C07:called-more-than-once", f"{desc}: no candidate is enabled but the action ran: {got_actions!r}", labels=labels)
            continue
        tgt = f"t{chosen}"
        if len(got_actions) != 1:
            return outcome(False, "C07:not-called" if not got_actions else "C07:called-more-than-once", f"{desc}: the {case['group']} callback ran {len(got_actions)} times", labels=labels)
        r = got_actions[0]
        ok = r[1] == "s" and r[2] == tgt and r[3] in ("s", tgt) and r[4] == "s" and r[5] == tgt and r[6] == tgt and r[7] is True and r[8] == "go" and r[9] and r[10] and r[11] == a and r[12] == extra
        if not ok or sm.current_state.id != tgt:
            return outcome(False, "C07:wrong-binding-candidate", f"{desc}: candidate {chosen} (target {tgt}) was executed (state now {sm.current_state.id}); its {case['group']} callback received "
                           f"(source, target, state, transition.source, transition.target, event_data.target, same transition, event, machine ok, model ok, a, **kw) = {r[1:]!r}", labels=labels)
        n_calls += 1
        if chosen > 0:
            nt = True
            labels.add("earlier-candidate-rejected")
            if kwargs:
                labels.add("earlier-candidate-rejected+user-kwargs")
    return outcome(True, nontrivial=nt, labels=labels, stats={"bindings": n_calls, "typeerrors": 0, "excluded": 0})


# ------------------------------------------------------------------------------------------ strategies
@st.composite
def signature(draw, names=None):
    names = names if names is not None else draw(st.lists(st.sampled_from(BUILTINS + USER + USER), max_size=6, unique=True))
    rest = len(names)
    po = min(draw(st.sampled_from([0, 0, 0, 1, 2])), rest)
    rest -= po
    pk = draw(st.integers(0, rest))
    params = []
    seen_default = False
    for i, n in enumerate(names):
        kind = "PO" if i < po else ("PK" if i < po + pk else "KO")
        if kind in ("PO", "PK"):
            d = seen_default or draw(st.integers(0, 9)) < 3
            seen_default = d
        else:
            d = draw(st.booleans())
        params.append([n, kind, d])
    return {"params": params, "var": draw(st.integers(0, 9)) < 4, "kw": draw(st.integers(0, 9)) < 4}


@st.composite
def call_shape(draw, forwarded_ok=True):
    args = [f"p{i}" for i in range(draw(st.integers(0, 4)))]
    # (user keywords may also be spelled like the callback's own *varargs / **varkw parameters: those are ordinary keywords)
    kwn = draw(st.lists(st.sampled_from(USER + BUILTINS + USER + ["varargs", "varkw"]), max_size=4, unique=True))
    kwargs = {k: (None if draw(st.integers(0, 9)) == 0 else f"kw_{k}") for k in kwn}
    return {"args": args, "kwargs": kwargs, "forwarded": forwarded_ok and draw(st.integers(0, 4)) == 0}


@st.composite
def cases(draw, tier):
    if draw(st.integers(0, 9)) == 0:
        names = draw(st.lists(st.sampled_from(BUILTINS + USER), min_size=1, max_size=4, unique=True))
        kinds = draw(st.lists(st.sampled_from(["method", "async-method", "function", "partial", "wrapped", "wrapped"]), min_size=2, max_size=3))
        variants = [{"sig": draw(signature(names=names)), "cbkind": k, "prov": draw(st.sampled_from(["machine", "model", "listener"]))} for k in kinds]
        return {"kind": "collide", "variants": variants, "calls": [draw(call_shape(forwarded_ok=False)) for _ in range(4)]}
    if draw(st.integers(0, 11)) == 0:
        k = draw(st.integers(2, 4))
        calls = [{"G": [draw(st.booleans()) for _ in range(k)], "args": [f"p{i}" for i in range(draw(st.integers(0, 2)))],
                  "kwargs": {n: f"kw_{n}" for n in draw(st.lists(st.sampled_from(["a", "b", "x", "target", "source", "transition"]), max_size=3, unique=True))}} for _ in range(6)]
        return {"kind": "candidates", "n": k, "last_unguarded": draw(st.booleans()), "async": draw(st.integers(0, 3)) == 0,
                "group": draw(st.sampled_from(["before", "on", "after", "exit", "enter", "generic"])), "calls": calls}
    cbkind = draw(st.sampled_from(["method", "method", "method", "function", "partial", "async-method", "async-function", "wrapped"]))
    group = draw(st.sampled_from(["on", "on", "before", "after", "enter", "exit", "validators", "cond", "cond-not", "cond-and", "cond-or", "unless-name"]))
    if group in ("cond-not", "cond-and", "cond-or", "unless-name"):
        cbkind = draw(st.sampled_from(["method", "method", "wrapped"]))
    return {"kind": "single", "sig": draw(signature()), "cbkind": cbkind, "group": group, "prov": draw(st.sampled_from(["machine", "model", "listener"])),
            # state-level callbacks also run for the forwarding event itself: forwarding is exercised on transition-level groups
            "calls": [draw(call_shape(forwarded_ok=group not in ("enter", "exit"))) for _ in range(6 if tier == "quick" else 8)]}


FUZZ_RUNS = {"thorough": 4000}  # libFuzzer runs per shard of the coverage-guided sub-engine (vcheck/fuzz.py)


def strategy(tier):
    return cases(tier)


def budget(tier):
    return 16 * 400 if tier == "quick" else 16 * 8000
