"""C02 — callback groups run in the documented order with the documented view of state (DESIGN.md 4/C02)."""
from hypothesis import strategies as st

from .. import gen
from ..scenario import Play, play_case

PROPERTY = "C02"
LEVEL = "exploration"
RULE = (
    "case = generated machine with callbacks of every group attached in every documented way (naming convention generic/specific, "
    "State(enter=,exit=) and to(before=,on=,after=,validators=) by name or by function, decorators on states/transition lists, on machine / "
    "model / constructor listeners / late listeners, the same method in several groups, sync or coroutine) x config x short history. Oracle = "
    "reference interpreter parsing the recorded callback log: groups strictly in the order validators, conditions, before, exit, on, enter, "
    "after; each applicable callback exactly once (order inside a group free); injected event/state/source/target/args/kwargs and the "
    "current_state_value read inside the callback must be the documented ones; internal -> no exit/enter; before_/on_/after_<e> only for the "
    "triggering event; nothing from rejected candidates; activation = enter callbacks of the start state under '__initial__'. "
    "non-trivial = an executed transition with >=3 populated groups and (>=2 providers, or multi-event, or internal, or self-transition)"
)
ASSUMPTIONS = [
    "order inside one group is not asserted (documented as unspecified)",
    "two free callables with the same __name__ in one group are not generated (the library refuses such definitions)",
    "reference interpreter trusted",
]
PROVS = [("machine",), ("machine", "model"), ("machine", "model", "l0"), ("machine", "model", "l0", "l1", "late0")]


class P(Play):
    def on_step(self, i, step, obs, exp, before):
        it = self.interp
        spec = self.spec
        for k in it.fired[getattr(self, "_seen", 0):]:
            t = spec["trans"][k]
            groups, provs = set(), set()
            for grp in ("validators", "before", "exit", "on", "enter", "after"):
                ids = it.group_cbs(grp, k, step["ev"], t["src"] if grp == "exit" else t["dst"]) if not (t.get("internal") and grp in ("exit", "enter")) else []
                if ids:
                    groups.add(grp)
                    provs |= {x.split("@")[1] for x in ids}
            kind = "internal" if t.get("internal") else "self" if t["src"] == t["dst"] else "external"
            self.labels.add("transition:" + kind)
            if len(t["events"]) > 1:
                self.labels.add("multi-event")
            if len(groups) >= 3 and (len(provs) >= 2 or len(t["events"]) > 1 or kind != "external"):
                self.nontrivial = True
            self.labels.add(f"groups:{min(len(groups), 6)}")
        self._seen = len(it.fired)
        if self.is_async:
            self.labels.add("async")


@st.composite
def cases(draw, tier):
    provs = draw(st.sampled_from(PROVS))
    late = tuple(p for p in provs if p.startswith("late"))
    async_mode = draw(st.sampled_from(["none", "none", "all", "mixed", "one"]))
    spec = draw(gen.machine_spec(max_states=4, max_extra=5, providers=provs, late=late, async_mode=async_mode, sends=draw(st.sampled_from([False, False, True])),
                                 shared_names=True, attach=("conv", "name", "func", "deco", "partial", "bound")))
    spec["falsy_providers"] = [p for p in provs if p.startswith("l") and draw(st.integers(0, 4)) == 0]
    if draw(st.integers(0, 2)) == 0:
        # groups and their order must not depend on how the transitions were declared: one call that yields several transitions
        # (a.to(b, c), c.from_(a, b), from_.any()) hands its validators / actions to every one of them
        from .c15 import plan

        bundles = draw(gen.add_bundle(spec))
        spec["style"] = draw(plan(spec, bundles, any(c["scope"][0] == "state" and c["attach"] != "conv" for c in spec["cbs"])))
    is_async = gen.is_async_spec(spec)
    cfg = {"rtc": True if is_async else draw(st.sampled_from([True, True, False])), "allow": draw(st.booleans()),
           "driver": draw(st.sampled_from(["sync", "loop"])), "activate": draw(st.booleans()), "late": list(late)}
    hist = draw(gen.history(spec, max_steps=8 if tier == "quick" else 14))
    out = []
    for step in hist:
        if draw(st.booleans()):
            step["style"] = "method"
        if draw(st.integers(0, 11)) == 0:
            # one more instance of the class (fresh model), possibly starting elsewhere: its activation runs the enter callbacks of
            # ITS start state, whatever earlier instances of the class did
            rec = {"op": "reconstruct", "fresh": True}
            if draw(st.booleans()):
                j = draw(st.integers(0, len(spec["states"]) - 1))
                rec["start_value"] = spec["states"][j]["id"]
            out.append(rec)
        out.append(step)
    return {"spec": spec, "cfg": cfg, "history": out}


def strategy(tier):
    return cases(tier)


def budget(tier):
    return 16 * 150 if tier == "quick" else 16 * 3000


def run_case(case):
    return play_case(case, P, PROPERTY)
