"""C18 — the generated diagram is a faithful picture of the machine (DESIGN.md 4/C18)."""
import asyncio
import re
import shutil
from collections import Counter
from inspect import isawaitable

import pydot
from hypothesis import strategies as st

from statemachine.contrib.diagram import DotGraphMachine
from statemachine.exceptions import InvalidDefinition, TransitionNotAllowed

from .. import gen
from ..core import Boom, HarnessError, dec, render
from ..scenario import dispose, outcome
from .c10 import values_for

import itertools

_TWIN = itertools.count()
PROPERTY = "C18"
LEVEL = "exploration"
RULE = (
    "case = generated machine (named states, values of any kind incl. falsy ones, final states, multi-event / guarded / self / internal "
    "transitions with or without actions, callbacks on machine/model/listeners, sync or coroutine) + history. The pydot graph of the class "
    "(DotGraphMachine(cls)()) and of an instance after the history (sm._graph() and one DotGraphMachine(sm) kept since construction and re-rendered, every reachable current state) is read structurally: node names == "
    "{'i'} + state ids, each once; exactly one edge i -> initial state; multiset of the other edges == multiset of (source, target, set of event "
    "ids, set of guard labels with '!' for unless) over the external transitions; internal transitions are no edges but a line '<events> / "
    "<actions>' inside their state's label; peripheries == 2 iff final; instance: exactly the current state (as told by sm.current_state) carries "
    "the active fill colour / pen width, class: none; to_string() parses back with pydot to the same node/edge counts (thorough: Graphviz `dot` "
    "renders it). non-trivial = machine with an internal transition, a final state, a guarded edge and an instance whose current state is not the initial one "
    "(at least three of the four)"
)
ASSUMPTIONS = ["state ids are drawn from a pool without 'i' (collision with the initial pseudo-node: finding K5)", "label layout beyond the stated elements is not asserted"]
ACTIVE = "turquoise"


def strip(s):
    return s.strip('"') if isinstance(s, str) else s


def unesc(s):
    return strip(s).replace("\\n", "\n")


def check_graph(g, spec, current, what):
    ids = [s["id"] for s in spec["states"]]
    nodes = [strip(n.get_name()) for n in g.get_nodes()]
    if sorted(nodes) != sorted(["i"] + ids):
        return "nodes", f"{what}: nodes {sorted(nodes)}, expected {sorted(['i'] + ids)}"
    init = next(s["id"] for s in spec["states"] if s.get("initial"))
    edges = Counter()
    n_init = 0
    for e in g.get_edges():
        src, dst = strip(e.get_source()), strip(e.get_destination())
        label = unesc(e.get_attributes().get("label", ""))
        if src == "i":
            n_init += 1
            if dst != init:
                return "initial-edge", f"{what}: pseudo-node points at {dst}, initial state is {init}"
            continue
        lines = label.split("\n")
        evs = frozenset(lines[0].split())
        guards = tuple(sorted(x.strip() for x in lines[1].strip()[1:-1].split(","))) if len(lines) > 1 and lines[1].strip() else ()
        edges[(src, dst, evs, guards)] += 1
    if n_init != 1:
        return "initial-edge", f"{what}: {n_init} edges leave the initial pseudo-node"
    exp = Counter()
    for t in spec["trans"]:
        if t.get("internal"):
            continue
        guards = tuple(sorted(list(t.get("cond", [])) + ["!" + u for u in t.get("unless", [])]))  # each declared guard once
        exp[(ids[t["src"]], ids[t["dst"]], frozenset(t["events"]), guards)] += 1
    if edges != exp:
        missing = list((exp - edges).items())[:3]
        extra = list((edges - exp).items())[:3]
        return "edges", f"{what}: edges differ; missing {missing}; unexpected {extra}"
    active = []
    for n in g.get_nodes():
        nm = strip(n.get_name())
        if nm == "i":
            continue
        i = ids.index(nm)
        a = n.get_attributes()
        final = bool(spec["states"][i].get("final"))
        if (int(strip(str(a.get("peripheries", 1)))) == 2) != final:
            return "final-border", f"{what}: state {nm} final={final} drawn with peripheries={a.get('peripheries')}"
        # the highlight uses the documented class attributes of DotGraphMachine (customisation points), not literals
        if strip(str(a.get("fillcolor"))) == str(DotGraphMachine.state_active_fillcolor) or (a.get("penwidth") is not None and strip(str(a.get("penwidth"))) == str(DotGraphMachine.state_active_penwidth)):
            active.append(nm)
        lab = unesc(a.get("label", ""))
        lines = lab.split("\n")
        for t in spec["trans"]:
            if t.get("internal") and t["src"] == i:
                # internal transitions are listed as "<events> / <actions>" items (several on one line, comma separated)
                listed = {frozenset(m.group(1).split()) for l in lines[1:] for m in re.finditer(r"(?:^|, )([^,/]+?) /", l)}
                if frozenset(t["events"]) not in listed:
                    return "internal-missing", f"{what}: internal transition {t['events']} of {nm} is not listed in its label {lab!r}"
    want = [current] if current is not None else []
    if active != want:
        return "highlight", f"{what}: highlighted states {active}, expected {want}"
    back = pydot.graph_from_dot_data(g.to_string())
    if not back or len(back[0].get_edges()) != len(g.get_edges()):
        return "dot-roundtrip", f"{what}: to_string() does not parse back to the same graph"
    return None


def run_case(case):
    spec = case["spec"]
    cname = None
    shadow_r = None
    try:
        if case.get("shadow"):
            # another class with the same module and class name was defined and drawn before: diagrams are per class object
            cname = f"Twin{next(_TWIN)}"
            shadow_r = render(case["shadow"], cname=cname, register=False)
            DotGraphMachine(shadow_r.cls)()
            try:
                sh, _ = shadow_r.make(allow=True)
                if not gen.is_async_spec(case["shadow"]):
                    sh._graph()
            except Exception:
                pass
        r = render(spec, cname=cname, register=cname is None)
    except InvalidDefinition as e:
        return outcome(False, "C18:valid-definition-rejected", f"the class statement of a valid definition raised InvalidDefinition: {e}")
    labels = set()
    if shadow_r is not None:
        labels.add("same-named-class-drawn-before")
    try:
        bad = check_graph(DotGraphMachine(r.cls)(), spec, None, "class diagram")
        if bad:
            return outcome(False, f"C18:{bad[0]}", bad[1])
        Hh = r.new_H()
        Hh.val.update(case.get("val", {}))
        is_async = gen.is_async_spec(spec)

        def drive(sm):
            def send(ev):
                try:
                    return sm.send(ev)
                except (TransitionNotAllowed, Boom):
                    return None
            return send

        kw = {}
        if case.get("start") is not None:
            # an instance that resumes in a given state: the diagram of the machine is the same, only the active state differs
            s0 = spec["states"][case["start"]]
            kw["start_value"] = dec(s0["value"]) if "value" in s0 else s0["id"]
            labels.add("start_value")
        sm, _ = r.make(allow=True, Hh=Hh, **kw)
        if "late0" in Hh.objs:
            sm.add_listener(Hh.objs["late0"])  # a listener attached later, possibly exposing guard names too
            labels.add("late-listener")
        if is_async:
            sm.activate_initial_state()
        visited = set()
        # the documented pattern `graph = DotGraphMachine(sm)`: one renderer kept for the instance and called again after the machine
        # has moved; every rendering shows the state the machine is in when it is rendered (added after round 6, C18k)
        kept = DotGraphMachine(sm)
        ids = [s["id"] for s in spec["states"]]
        for n, ev in enumerate([None] + case["history"]):
            if ev is not None:
                Hh.val.update(case.get("vals", {}).get(str(n), {}))
                drive(sm)(ev)
            cur = sm.current_state.id
            if cur in visited:
                continue
            visited.add(cur)
            g = sm._graph()
            bad = check_graph(g, spec, cur, f"instance diagram in state {cur}")
            if bad:
                return outcome(False, f"C18:{bad[0]}", bad[1])
            bad = check_graph(kept(), spec, cur, f"instance diagram in state {cur}, rendering #{len(visited)} of one DotGraphMachine(sm) kept since construction")
            if bad:
                return outcome(False, f"C18:{bad[0]}", bad[1])
            if len(visited) > 1:
                labels.add("kept-renderer-re-rendered")
            if case.get("dot") and shutil.which("dot"):
                try:
                    g.create_svg()
                except Exception as e:
                    return outcome(False, "C18:dot-render", f"Graphviz cannot render the diagram: {e}")
                labels.add("rendered-with-dot")
        feats = [any(t.get("internal") for t in spec["trans"]), any(s.get("final") for s in spec["states"]),
                 any(t.get("cond") or t.get("unless") for t in spec["trans"] if not t.get("internal")), len(visited) > 1]
        for f, nm in zip(feats, ["internal", "final", "guarded-edge", "non-initial-current"]):
            if f:
                labels.add(nm)
        cur_val = sm.current_state_value
        if not cur_val:
            labels.add("falsy-current-value")
        return outcome(True, nontrivial=sum(feats) >= 3, labels=labels, stats={"instance_graphs": len(visited), "class_graphs": 1})
    finally:
        dispose(r)


NAMES = [None, None, "Draft", "In progress", "état", "a b", "x/y", "Done!"]


@st.composite
def cases(draw, tier):
    provs = draw(st.sampled_from([("machine",), ("machine", "model"), ("machine", "model", "l0"), ("machine", "l0", "late0")]))
    spec = draw(gen.machine_spec(max_states=5, providers=provs, late=tuple(p for p in provs if p.startswith("late")), async_mode=draw(st.sampled_from(["none", "none", "none", "all"])), sends=False,
                                 guard_kinds=("method", "property", "func"), validators=draw(st.booleans())))
    n = len(spec["states"])
    for s in spec["states"]:
        nm = draw(st.sampled_from(NAMES))
        if nm:
            s["name"] = nm
    kind = draw(st.sampled_from(["ids", "ids", "int", "enum", "mixed", "str"]))
    vals = values_for(kind, n, draw)
    if vals is not None:
        for s, v in zip(spec["states"], vals):
            s["value"] = v
    if spec["trans"] and draw(st.booleans()):
        # internal transitions with and without `on` actions
        loops = [t for t in spec["trans"] if t["src"] == t["dst"]]
        for t in loops:
            if draw(st.booleans()):
                t["internal"] = True
    if draw(st.booleans()):
        # the diagram must not depend on how the machine was declared (id-less Event objects, class attributes, from_ ...)
        from .c15 import plan

        inline_state = any(c["scope"][0] == "state" and c["attach"] != "conv" for c in spec["cbs"]) or any("name" in s_ for s_ in spec["states"])
        spec["style"] = draw(plan(spec, draw(gen.add_bundle(spec)), inline_state, extend=True))
    if "late0" in provs:
        in_unless = {g for t in spec["trans"] for g in t["unless"]}
        for g in list(spec["guards"]):
            if g["name"] not in in_unless and g["kind"] != "func" and not g.get("async") and draw(st.booleans()) and not any(x["name"] == g["name"] and x["prov"] == "late0" for x in spec["guards"]):
                for x in spec["guards"]:
                    if x["name"] == g["name"]:
                        x["async"] = False
                spec["guards"].append({"name": g["name"], "prov": "late0", "kind": "method", "async": False, "multi": True})
    from ..core import cbid_of

    gids = [cbid_of(g) for g in spec.get("guards", [])]
    hist = draw(st.lists(st.sampled_from(spec["events"]), max_size=8 if tier == "quick" else 14))
    vals = {str(k + 1): {g: draw(st.booleans()) for g in gids} for k in range(len(hist))}
    case = {"spec": spec, "history": hist, "val": {g: draw(st.booleans()) for g in gids}, "vals": vals, "dot": tier == "thorough" and draw(st.integers(0, 9)) == 0}
    if draw(st.integers(0, 3)) == 0:
        case["shadow"] = draw(gen.machine_spec(max_states=4, providers=("machine",), async_mode="none", sends=False))
    if draw(st.integers(0, 3)) == 0:
        case["start"] = draw(st.integers(0, n - 1))
    return case


def strategy(tier):
    return cases(tier)


def budget(tier):
    return 16 * 120 if tier == "quick" else 16 * 1500
