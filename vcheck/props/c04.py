"""C04 — a failing callback leaves a consistent, usable machine (DESIGN.md 4/C04).  Level: fault_enumeration."""
import copy

from hypothesis import strategies as st

from .. import gen
from ..core import Boom, HarnessError
from ..scenario import Play, outcome, play_case

PROPERTY = "C04"
LEVEL = "fault_enumeration"
CAP = 60
RULE = (
    "scenario = generated machine + config + history with scripted nested sends (generator of C03, validators included). A fault-free run "
    "yields every callback invocation (callback id, occurrence, step) of the scenario, plus every evaluation of a guard that is the sole guard of its transitions; EVERY one of them (cap 60 per scenario, counted) is "
    "then made to raise on a fresh instance, and for a generated subset a second failure is injected into a later step of the faulty run; "
    "queued events that turn out not to be allowed (TransitionNotAllowed inside the drain) occur from the scripts. Oracle = reference "
    "interpreter: the very exception object raised (the harness' exception, a library TransitionNotAllowed raised by user code, or a ValueError / KeyError / AttributeError, in rotation) escapes the outermost call; state = source if the failure was in validators/conditions/"
    "before/exit/on, target if in enter/after (as the interpreter's own state says, also under rtc=False nesting); queued events are dropped: "
    "the remaining history must produce exactly the interpreter's log (no stale event, machine not wedged). "
    "evaluations = injected runs; non-trivial = crash point not in the first callback group of the first event of its step, or events were "
    "pending in the queue when it fired; distinct = (scenario hash, crash point)"
)
ASSUMPTIONS = [
    "siblings of the failing callback inside its group may or may not have run (sync: those scheduled before it; async: all of them)",
    "in async fault runs callbacks that send nested events do not yield, so a sibling of the failing callback cannot enqueue after the queue was cleared",
    "failures injected into initial activation inside the constructor are checked for exception identity only (no machine object results)",
    "a StopIteration raised by a plain callback or guard may reach the caller as RuntimeError caused by it (PEP 479: it crossed a coroutine or generator frame)",
    "reference interpreter trusted",
]
BUDGET_IS_TOTAL = True
SHRINK_CALLS = 25  # every call enumerates all crash points of a scenario


class Clean(Play):
    """fault-free run that records the crash points of every step."""

    def __init__(self, case, rendered=None):
        super().__init__(case, rendered)
        self.points = []
        # guards that are the only guard entry (single provider) of every transition that uses them: whether such a guard is
        # evaluated does not depend on the unspecified evaluation order, so "it raises" is a well-defined crash point
        spec = case["spec"]
        provs = {}
        for g in spec.get("guards", []):
            provs.setdefault(g["name"], []).append(f"{g['name']}@{g['prov']}")
        users = {}
        for t in spec["trans"]:
            for name in t.get("cond", []) + t.get("unless", []):
                users.setdefault(name, []).append(len(t.get("cond", [])) + len(t.get("unless", [])))
        self.sole_guards = {provs[n][0] for n, sizes in users.items() if len(provs.get(n, [])) == 1 and all(x == 1 for x in sizes)}

    def after_step(self, i, step, obs, ctx=None):
        toks = list(self.H.log)
        super().after_step(i, step, obs, ctx)
        first_group = True
        seen_end = False
        seen_guards = set()
        for n, t in enumerate(toks):
            if t[0] == "B":
                self.points.append({"step": i, "cbid": t[1], "occ": t[2], "first": n == 0, "pos": n})
            elif t[0] == "G" and t[1] not in seen_guards and t[1] in self.sole_guards:
                seen_guards.add(t[1])
                self.points.append({"step": i, "cbid": t[1], "occ": -1, "first": n == 0, "pos": n, "guard": True})


class Faulty(Play):
    def __init__(self, case, rendered=None):
        super().__init__(case, rendered)
        self.later = []
        self.pending_at_fault = 0

    def after_step(self, i, step, obs, ctx=None):
        toks = list(self.H.log)
        before_dropped = self.interp.stats["dropped_on_failure"] if self.interp else 0
        super().after_step(i, step, obs, ctx)
        if self.interp.stats["dropped_on_failure"] > before_dropped:
            self.labels.add("pending-events-dropped")
            self.nontrivial = True
        if str(i) in self.case.get("faults", {}):
            self.labels.add("exc-escaped" if obs[0] == "exc" else "fault-not-reached")
        else:
            for t in toks:
                if t[0] == "B":
                    self.later.append({"step": i, "cbid": t[1], "occ": t[2]})


KINDS = ["boom", "tna", "value", "key", "boom", "attr", "stop"]
GUARD_KINDS = ["boom", "stop", "value"]


def inject(case, points):
    c = dict(case)
    # the kind of exception rotates with the crash point: the harness' own exception, the library's TransitionNotAllowed
    # raised by user code, builtin exceptions (StopIteration only from plain functions: inside a coroutine Python itself turns
    # it into a RuntimeError)
    # (a StopIteration raised inside a coroutine function is turned into RuntimeError by Python before it even leaves the user's
    # callback: coroutine callbacks and guards get a ValueError / Boom instead; from plain callbacks it is raised on both
    # engines - where it crosses a coroutine or generator frame of the library it arrives as RuntimeError caused by it)
    is_async = {f"{d['name']}@{d['prov']}": bool(d.get("async")) for d in case["spec"]["cbs"] + case["spec"].get("guards", [])}
    faults = {}
    for p in points:
        n = p["occ"] + p.get("pos", 0) + len(p["cbid"])
        if p.get("guard"):
            k = GUARD_KINDS[n % len(GUARD_KINDS)]
            faults[str(p["step"])] = [p["cbid"], p["occ"], "guard", "boom" if (k == "stop" and is_async.get(p["cbid"])) else k]
        else:
            k = KINDS[n % len(KINDS)]
            faults[str(p["step"])] = [p["cbid"], p["occ"], "value" if (k == "stop" and is_async.get(p["cbid"], True)) else k]
    c["faults"] = faults
    return c


def run_case(case):
    """case with "faults" -> one injected run (replay form).  Without -> enumerate all crash points of the scenario."""
    if "faults" in case:
        return play_case(case, Faulty, PROPERTY)
    clean = {}

    def mk(c, r=None):
        p = Clean(c, r)
        clean["p"] = p
        return p

    base = play_case(case, mk, PROPERTY)
    if not base["ok"] or "p" not in clean:
        return base
    points = clean["p"].points
    labels = set(base["labels"])
    stats = {"scenarios": 1, "crash_points_total": len(points), "crash_points_capped_away": max(0, len(points) - CAP), "injected_runs": 0, "double_faults": 0}
    pairs = case.get("pairs", [])
    nontrivial = 0
    hashes = []
    for n, pt in enumerate(points[:CAP]):
        sub = inject(case, [pt])
        holder = {}

        def mkf(c, r=None):
            holder["p"] = Faulty(c, r)
            return holder["p"]

        out = play_case(sub, mkf, PROPERTY)
        stats["injected_runs"] += 1
        labels |= set(out["labels"])
        group = next((c["group"] for c in case["spec"]["cbs"] if f"{c['name']}@{c['prov']}" == pt["cbid"]), "?")
        labels.add("fault-in:" + ("guard" if pt.get("guard") else group))
        if not out["ok"]:
            return outcome(False, out["signature"], f"crash point {pt}: {out['detail']}", labels=labels, stats=stats, case={k: v for k, v in sub.items() if k != "pairs"})
        if not pt["first"] or out["nontrivial"]:
            nontrivial += 1
        # second failure in a later step of the faulty run
        if n in pairs and "p" in holder and holder["p"].later:
            later = holder["p"].later
            p2 = later[(n * 7) % len(later)]
            sub2 = inject(case, [pt, p2])
            out2 = play_case(sub2, Faulty, PROPERTY)
            stats["injected_runs"] += 1
            stats["double_faults"] += 1
            labels.add("double-fault")
            if not out2["ok"]:
                return outcome(False, out2["signature"], f"crash points {pt} then {p2}: {out2['detail']}", labels=labels, stats=stats, case={k: v for k, v in sub2.items() if k != "pairs"})
            nontrivial += 1
    stats["nontrivial_crash_points"] = nontrivial
    return outcome(True, nontrivial=nontrivial > 0, labels=labels, stats=stats)


@st.composite
def cases(draw, tier):
    if draw(st.integers(0, 9)) == 0:
        from .c03 import nested_move_case

        c = draw(nested_move_case(tier))  # failures while an outer self-transition has a nested, state-changing event
        c["pairs"] = []
        return c
    provs = draw(st.sampled_from([("machine",), ("machine", "model"), ("machine", "model", "l0")]))
    async_mode = draw(st.sampled_from(["none", "none", "all", "mixed"]))
    spec = draw(gen.machine_spec(max_states=4, max_extra=5, providers=provs, async_mode=async_mode, sends=True, validators=True))
    is_async = gen.is_async_spec(spec)
    cfg = {"rtc": True if is_async else draw(st.booleans()), "allow": draw(st.sampled_from([True, False, False])),
           "driver": draw(st.sampled_from(["sync", "loop"])), "activate": draw(st.booleans())}
    hist = draw(gen.history(spec, max_steps=5 if tier == "quick" else 7))
    for step in hist:
        for k in list(step["val"]):
            if k.startswith("v") and draw(st.integers(0, 9)) < 8:
                step["val"][k] = False
    return {"spec": spec, "cfg": cfg, "history": hist, "pairs": draw(st.lists(st.integers(0, CAP - 1), max_size=6, unique=True))}


def strategy(tier):
    return cases(tier)


def budget(tier):
    return 16 * 40 if tier == "quick" else 16 * 600


def evidence_hook(cov):
    c = cov.get("counters", {})
    if "injected_runs" in c:
        cov["scenarios"] = c.get("scenarios", 0)
        cov["evaluations"] = c["injected_runs"] + c.get("scenarios", 0)
        cov["distinct_nontrivial"] = c.get("nontrivial_crash_points", 0)
        cov["crash_points_enumerated"] = c["injected_runs"] - c.get("double_faults", 0)
    return cov
