"""C10 — the current state is exactly what the user's model stores (DESIGN.md 4/C10)."""
from hypothesis import strategies as st

from statemachine.exceptions import InvalidStateValue

from .. import gen
from ..core import dec
from ..scenario import Fail, Play, play_case

PROPERTY = "C10"
LEVEL = "exploration"
RULE = (
    "case = generated machine whose states carry values of a drawn kind (default ids, custom strings incl. '', ints incl. 0 and negatives, "
    "Enum / IntEnum members incl. a zero-valued one, tuples incl. (), a mixed pool of mutually unequal hashables) x model shape (library "
    "default, plain object, attribute preset to None, class-level default, property-backed store, list subclass (falsy), __len__ -> 0, "
    "__bool__ -> False) x any identifier as state_field x start_value (unset / any state's value) x history interleaving events with external "
    "writes of valid values (model attribute, current_state_value setter, current_state setter) and of unmapped values (setter: "
    "InvalidStateValue and nothing stored; directly on the model: InvalidStateValue on read, then restored). Invariants after every step: "
    "getattr(model, field) == interpreter's value, current_state.value / current_state_value agree, exactly one sm.<state>.is_active, "
    "sm.model is the user's object; events always leave from the stored state (reference interpreter). "
    "A 'reconstruct' step creates a new machine over the same model (the stored value, falsy or not, must be resumed untouched, no callbacks). "
    "non-trivial = history in which a falsy value is the current state, or the model is falsy, or an external write happened"
)
ASSUMPTIONS = [
    "state values are pairwise unequal and hashable by construction (e.g. 0, False and 0.0 are never used together)",
    "reference interpreter trusted",
]
SHAPES = ["default", "plain", "preset-none", "class-default", "property", "falsy-list", "len0", "bool-false", "falsy-dict", "userdict"]
FIELDS = ["state", "status", "st", "_state", "current", "x", "state_value", "State"]
MIXED = ["", 0, {"$t": []}, "a", -1, {"$t": [1]}, 2.5, {"$fs": []}, "0", {"$t": [0]}, 7, "s0"]
UNMAPPED = ["zz", -99, None, {"$t": ["zz"]}, 3.25, "", 0]


def values_for(kind, n, draw):
    if kind == "ids":
        return None
    if kind == "str":
        pool = ["", "a", "b", "state", "s0", "0", " ", "None"]
    elif kind == "int":
        pool = [0, -1, 1, 2, -7, 10, 255]
    elif kind == "enum":
        pool = [{"$e": x} for x in "ZABCDEF"]
    elif kind == "intenum":
        pool = [{"$ie": x} for x in "ZABCDEF"]
    elif kind == "enum-instance":
        return [{"$en": [n, f"s{i}"]} for i in range(n)]
    elif kind == "intenum-instance":
        return [{"$ien": [n, f"s{i}"]} for i in range(n)]
    elif kind == "tuple":
        pool = [{"$t": []}, {"$t": [0]}, {"$t": [1, 2]}, {"$t": ["a"]}, {"$t": [None]}, {"$t": [[]]}][:5] + [{"$t": [3]}, {"$t": [0, 0]}]
    else:
        pool = MIXED
    return draw(st.permutations(pool))[:n]


class P(Play):
    WRITE_NONTRIVIAL = True

    def invariants(self, ctx, what):
        it, sm = ctx.interp, ctx.sm
        if ctx.extra.get("user_model") is not None and sm.model is not ctx.extra["user_model"]:
            raise Fail("model-replaced", f"{what}: sm.model is not the model object supplied by the user ({type(ctx.extra['user_model']).__name__})")
        exp = it.svalue(it.state)
        stored = getattr(sm.model, self.field, None)
        if repr(stored) != repr(exp):
            raise Fail("model-field", f"{what}: model.{self.field} holds {stored!r}, expected {exp!r}")
        if it.state is None:
            return
        if stored is not exp and type(exp).__module__ == "vcheck.core":
            raise Fail("model-field", f"{what}: stored enum member is not the state's value object")
        if repr(sm.current_state.value) != repr(exp) or sm.current_state.id != it.sid(it.state):
            raise Fail("current-state", f"{what}: current_state is {sm.current_state!r}, expected value {exp!r}")
        active = [s["id"] for s in self.spec["states"] if getattr(sm, s["id"]).is_active]
        if active != [it.sid(it.state)]:
            raise Fail("is-active", f"{what}: active states {active}, expected exactly [{it.sid(it.state)!r}]")
        if not exp and exp is not None:
            self.labels.add("falsy-current-value")
            self.nontrivial = True

    async def construct(self, name="main", model=None, Hh=None, state0=None):
        ctx = await super().construct(name, model, Hh, state0)
        if self.cfg.get("model_shape", "default") != "default":
            ctx.extra["user_model"] = ctx.model
            if not ctx.model:
                self.labels.add("falsy-model")
                self.nontrivial = True
        self.check_state(ctx, "after construction")
        self.labels.add("shape:" + self.cfg.get("model_shape", "default"))
        self.labels.add("values:" + self.case.get("value_kind", "ids"))
        if "start_value" in self.cfg:
            self.labels.add("start_value")
        return ctx

    async def op_write_invalid(self, step):
        ctx = self.main
        if ctx.interp.state is None:
            return
        vals = [repr(ctx.interp.svalue(i)) for i in range(len(self.spec["states"]))]
        v = dec(step["value"])
        if repr(v) in vals or any(v == ctx.interp.svalue(i) for i in range(len(self.spec["states"]))):
            return
        sm = ctx.sm
        if step["via"] == "setter":
            try:
                sm.current_state_value = v
            except InvalidStateValue:
                pass
            else:
                raise Fail("invalid-value-accepted", f"step {self.i}: current_state_value = {v!r} (unmapped) did not raise InvalidStateValue")
            self.check_state(ctx, f"step {self.i} rejected write of {v!r}")
            self.labels.add("invalid:setter")
        elif step["via"] == "foreign-state":
            # a State object that does not belong to this machine (free-standing, or of another class) assigned to current_state
            from statemachine import State

            try:
                sm.current_state = State("Foreign", value=v)
            except InvalidStateValue:
                pass
            else:
                raise Fail("invalid-value-accepted", f"step {self.i}: current_state = <a State of no machine, value {v!r}> did not raise InvalidStateValue")
            self.check_state(ctx, f"step {self.i} rejected foreign State({v!r})")
            self.labels.add("invalid:foreign-state")
        else:
            if v is None:
                return
            good = getattr(sm.model, self.field)
            setattr(sm.model, self.field, v)
            try:
                sm.current_state
            except InvalidStateValue:
                pass
            else:
                raise Fail("invalid-value-read", f"step {self.i}: model holds unmapped {v!r} but current_state did not raise InvalidStateValue")
            setattr(sm.model, self.field, good)
            self.check_state(ctx, f"step {self.i} restored after unmapped {v!r}")
            self.labels.add("invalid:model")


@st.composite
def cases(draw, tier):
    spec = draw(gen.machine_spec(max_states=5, providers=draw(st.sampled_from([("machine",), ("machine", "model")])),
                                 async_mode=draw(st.sampled_from(["none", "none", "none", "all"])), sends=draw(st.sampled_from([False, False, True])),
                                 guard_kinds=("method",), attach=("conv", "name")))
    n = len(spec["states"])
    kind = draw(st.sampled_from(["ids", "str", "int", "enum", "intenum", "tuple", "mixed", "mixed", "enum-instance", "intenum-instance"]))
    vals = values_for(kind, n, draw)
    if vals is not None:
        for s, v in zip(spec["states"], vals):
            s["value"] = v
    if draw(st.integers(0, 2)) == 0:
        # display names are free text: several states may share one (identity of a state is its id / value, not its name)
        for s_ in spec["states"]:
            s_["name"] = draw(st.sampled_from(["Same", "Same", "Other", "S0", "s1"]))
    no_enum_style = kind not in ("enum-instance", "intenum-instance") or any(c["scope"][0] == "state" and c["attach"] != "conv" for c in spec["cbs"]) or any("name" in s_ for s_ in spec["states"])
    if draw(st.integers(0, 2)) == 0 or not no_enum_style:
        # other documented ways to declare the same machine, incl. a subclass that adds one state to a concrete parent class
        from .c15 import plan

        spec["style"] = draw(plan(spec, [], no_enum_style, extend=True))
        if not no_enum_style and draw(st.integers(0, 3)) > 0:
            # the state values are the members of an existing enum: States.from_enum(E, ..., use_enum_instance=True)
            spec["style"]["states"] = "enum"
            spec["style"].pop("extend", None)
    is_async = gen.is_async_spec(spec)
    cfg = {"rtc": True if is_async else draw(st.sampled_from([True, True, False])), "allow": draw(st.booleans()),
           "driver": draw(st.sampled_from(["sync", "sync", "loop"])), "activate": True,
           "model_shape": draw(st.sampled_from(SHAPES)), "state_field": draw(st.sampled_from(FIELDS))}
    if draw(st.integers(0, 2)) == 0:
        i = draw(st.integers(0, n - 1))
        cfg["start_value"] = spec["states"][i]["value"] if "value" in spec["states"][i] else spec["states"][i]["id"]
    hist = []
    sends = draw(gen.history(spec, max_steps=8 if tier == "quick" else 16))
    for step in sends:
        r = draw(st.integers(0, 9))
        if r < 3:
            hist.append({"op": "write", "via": draw(st.sampled_from(["model", "csv", "cs"])), "state": draw(st.integers(0, 4))})
        elif r < 5:
            hist.append({"op": "write_invalid", "via": draw(st.sampled_from(["setter", "model", "foreign-state"])), "value": draw(st.sampled_from(UNMAPPED))})
        elif r < 7:
            rec = {"op": "reconstruct"}
            if draw(st.integers(0, 2)) == 0:
                # a second instance of the same class over a brand-new model, without (or with another) start_value
                rec["fresh"] = True
                if draw(st.integers(0, 2)) == 0:
                    j = draw(st.integers(0, n - 1))
                    rec["start_value"] = spec["states"][j]["value"] if "value" in spec["states"][j] else spec["states"][j]["id"]
            hist.append(rec)
        hist.append(step)
    return {"spec": spec, "cfg": cfg, "history": hist, "value_kind": kind}


def strategy(tier):
    return cases(tier)


def budget(tier):
    return 16 * 120 if tier == "quick" else 16 * 2000


def run_case(case):
    return play_case(case, P, PROPERTY)
