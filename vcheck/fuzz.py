"""Coverage-guided sub-engine (thorough tier of C07 / C08): atheris (libFuzzer) mutates the byte string that Hypothesis'
`fuzz_one_input` decodes into a case of the property's own strategy; the statemachine package is instrumented for coverage,
the oracle is the property's run_case.  Runs in its own process (instrumentation must precede the first import of the
library; libFuzzer exits the process when it is done): python -m vcheck.fuzz <PID> <runs> <seed> <out.json>"""
import json
import os
import sys
import time
import warnings


def main():
    pid, runs, seed, out = sys.argv[1], int(sys.argv[2]), int(sys.argv[3]), sys.argv[4]
    warnings.simplefilter("ignore")
    import atheris

    with atheris.instrument_imports(include=["statemachine"]):
        import statemachine  # noqa: F401
        import statemachine.contrib.diagram  # noqa: F401
    from hypothesis import HealthCheck, given, settings

    from .runner import canon, get_module, sha

    mod = get_module(pid)
    stats = {"executions": 0, "nontrivial": set(), "failure": None, "labels": {}, "t0": time.time()}

    def dump():
        with open(out + ".tmp", "w") as f:
            json.dump({"executions": stats["executions"], "nontrivial_hashes": sorted(stats["nontrivial"]), "failure": stats["failure"],
                       "labels": stats["labels"], "wall_s": round(time.time() - stats["t0"], 1)}, f, default=repr)
        os.replace(out + ".tmp", out)

    @settings(database=None, deadline=None, suppress_health_check=list(HealthCheck), max_examples=10**9)
    @given(mod.strategy("thorough"))
    def test(case):
        res = mod.run_case(case)
        stats["executions"] += 1
        for lab in res.get("labels", ()):
            stats["labels"][lab] = stats["labels"].get(lab, 0) + 1
        if res.get("nontrivial"):
            stats["nontrivial"].add(sha(case, 16))
        if not res["ok"] and stats["failure"] is None:
            stats["failure"] = {"signature": res["signature"], "detail": res["detail"], "case": res.get("case", case)}
            dump()
            os._exit(0)  # first failure ends the campaign; the runner turns it into a replay file
        if stats["executions"] % 200 == 0:
            dump()

    corpus = out + ".corpus"
    os.makedirs(corpus, exist_ok=True)
    atheris.Setup([sys.argv[0], f"-runs={runs}", f"-seed={seed or 1}", "-max_len=2048", "-verbosity=0", "-print_final_stats=0", corpus], test.hypothesis.fuzz_one_input)
    dump()
    try:
        atheris.Fuzz()
    finally:
        dump()


if __name__ == "__main__":
    main()
