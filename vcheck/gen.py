"""Hypothesis strategies for abstract machine specs, configurations and histories (see core.py for the spec format).

Validity is established by construction (spanning arborescence from the initial state, finals without out-edges,
unique ids), never by rejection."""
from __future__ import annotations

from hypothesis import strategies as st

EVENT_POOL = ["go", "go_back", "g", "goo", "tick", "Tick", "go2"]
GUARD_POOL = ["g0", "g1", "g2", "g3", "g4", "g5"]
RET_POOL = [None, 0, "", [], [1], "r", 7, {"k": 1}, {"$t": [1, "x"]}, [None], False, {"$t": []}]
TRUTHY = [True, True, 1, "yes", [0], 2.5, {"a": 1}, -1]
FALSY = [False, False, 0, "", [], None, 0.0, {}]
UNKNOWN_EVENTS = ["nope", "go_", "GO", "gone", "s0", "", "current_state", "allowed_events", "model", "activate_initial_state", "g0", "__initial__"]


@st.composite
def graph(draw, max_states=5, max_extra=8):
    n = draw(st.integers(1, max_states))
    edges = [(draw(st.integers(0, i - 1)), i) for i in range(1, n)]
    extra = draw(st.lists(st.tuples(st.integers(0, n - 1), st.integers(0, n - 1), st.sampled_from([False, False, False, True])), max_size=max_extra))
    edges += [(s, s if loop else d) for s, d, loop in extra]  # a quarter of the extra edges are self-transitions
    if not edges:
        edges.append((0, 0))
    edges = draw(st.permutations(edges))
    has_out = {s for s, _ in edges}
    finals = [i for i in range(1, n) if i not in has_out and draw(st.booleans())]
    # non-final states need an outgoing transition only under strict mode; not required here
    return n, list(edges), finals


def _subset(draw, items, max_size=None):
    if not items:
        return []
    return draw(st.lists(st.sampled_from(items), unique=True, max_size=max_size if max_size is not None else len(items)))


@st.composite
def machine_spec(
    draw,
    *,
    max_states=5,
    providers=("machine",),
    late=(),
    async_mode="none",
    guards=True,
    validators=True,
    actions=True,
    sends=False,
    send_unknown=True,
    attach=("conv", "name", "func", "deco"),
    guard_kinds=("method", "property", "attr", "func"),
    max_extra=8,
    rets=RET_POOL,
    multi_provider=True,
    payload=True,
    shared_names=False,
    instance_cbs=False,
):
    """Draw a valid machine spec.  async_mode: none | all | mixed | one."""
    n, edges, finals = draw(graph(max_states=max_states, max_extra=max_extra))
    events = draw(st.lists(st.sampled_from(EVENT_POOL), min_size=1, max_size=4, unique=True))
    states = [{"id": f"s{i}", "initial": i == 0, "final": i in finals} for i in range(n)]
    trans = []
    for k, (s, d) in enumerate(edges):
        nev = draw(st.sampled_from([1, 1, 1, 1, 2, 3])) if len(events) > 1 else 1
        evs = draw(st.lists(st.sampled_from(events), min_size=min(nev, len(events)), max_size=min(nev, len(events)), unique=True))
        t = {"src": s, "dst": d, "events": evs, "internal": s == d and draw(st.integers(0, 9)) < 4}
        if guards:
            t["cond"] = draw(st.lists(st.sampled_from(GUARD_POOL[:4]), max_size=2, unique=True)) if draw(st.integers(0, 9)) < 6 else []
            un = draw(st.lists(st.sampled_from(GUARD_POOL), max_size=2, unique=True)) if draw(st.integers(0, 9)) < 3 else []
            t["unless"] = [g for g in un if g not in t["cond"]]  # same name in cond and unless: finding K8, probed separately
        else:
            t["cond"], t["unless"] = [], []
        trans.append(t)

    events = [e for e in events if any(e in t["events"] for t in trans)]  # only events some transition is bound to
    ctor_provs = [p for p in providers if p not in late]
    cbs = []
    seen = set()
    payload_ctr = [0]

    def is_async_for(idx):
        if async_mode == "all":
            return True
        if async_mode == "mixed":
            return draw(st.booleans())
        return False

    aliased = set()

    def add(name, group, scope, att, provs):
        for prov in provs:
            if (name, prov) in seen:
                continue
            seen.add((name, prov))
            c = {"name": name, "group": group, "scope": scope, "attach": att, "prov": prov, "async": False, "yields": 0, "ret": None, "sends": {}}
            key = (group, repr(scope))
            if att in ("func", "partial") and key not in aliased and draw(st.integers(0, 9)) < 4:
                aliased.add(key)
                c["alias"] = "<lambda>" if att == "func" else "handler"  # same __name__ as other free callables elsewhere
            cbs.append(c)

    def provs_for(att, allow_late=True):
        if att in ("func", "partial"):
            return ["free"]
        if att == "bound":
            return ["ext"]
        if att == "deco":
            return ["machine"]
        pool = list(providers) if (att == "conv" and allow_late) else ctor_provs
        if not multi_provider or len(pool) == 1:
            return [draw(st.sampled_from(pool))]
        return draw(st.lists(st.sampled_from(pool), min_size=1, max_size=2, unique=True))

    if validators:
        for k, t in enumerate(trans):
            if draw(st.integers(0, 9)) < 2:
                for j in range(draw(st.integers(1, 2))):
                    att = draw(st.sampled_from([a for a in attach if a in ("name", "func", "deco", "partial", "bound")] or ["name"]))
                    add(f"v{k}_{j}", "validators", ["trans", [k]], att, provs_for(att))
    if actions:
        conv = "conv" in attach
        if conv:
            for name, group in [("before_transition", "before"), ("on_exit_state", "exit"), ("on_transition", "on"), ("on_enter_state", "enter"), ("after_transition", "after")]:
                if draw(st.integers(0, 9)) < 4:
                    add(name, group, ["generic"], "conv", provs_for("conv"))
            for e in events:
                for p, group in (("before_", "before"), ("on_", "on"), ("after_", "after")):
                    if draw(st.integers(0, 9)) < 4:
                        add(p + e, group, ["event", e], "conv", provs_for("conv"))
            for i in range(n):
                for p, group in (("on_enter_", "enter"), ("on_exit_", "exit")):
                    if draw(st.integers(0, 9)) < 4:
                        add(f"{p}s{i}", group, ["state", i], "conv", provs_for("conv"))
        inline_styles = [a for a in attach if a != "conv"]
        if inline_styles:
            for k, t in enumerate(trans):
                for grp in ("before", "on", "after"):
                    for j in range(draw(st.sampled_from([0, 0, 0, 1, 1, 2]))):
                        att = draw(st.sampled_from(inline_styles))
                        add(f"t{k}_{grp}{j}", grp, ["trans", [k]], att, provs_for(att))
            for i in range(n):
                for grp in ("enter", "exit"):
                    if draw(st.integers(0, 9)) < 2:
                        att = draw(st.sampled_from(inline_styles))
                        add(f"s{i}_{grp}0", grp, ["state", i], att, provs_for(att))
    if shared_names:
        # the same method attached to two groups of one transition / state (before="f", after="f")
        other = {"before": ["on", "after"], "on": ["after", "before"], "after": ["before", "on"], "enter": ["exit"], "exit": ["enter"]}
        done = set()
        for c in list(cbs):
            if c["attach"] == "name" and c["group"] in other and c["name"] not in done and draw(st.integers(0, 9)) < 2:
                done.add(c["name"])
                grp = draw(st.sampled_from(other[c["group"]]))
                for c2 in list(cbs):  # a name is resolved on every provider that has it
                    if c2["name"] == c["name"] and c2["group"] == c["group"]:
                        cbs.append(dict(c2, group=grp, sends={}))
    if instance_cbs:
        for c in cbs:
            if c["attach"] == "conv" and c["prov"] not in ("machine", "free", "ext") and not c["prov"].startswith("late") and draw(st.integers(0, 9)) < 2:
                c["instance"] = True
    # guard definitions: every used name on 1..2 construction-time providers
    gdefs = []
    used = sorted({g for t in trans for g in t["cond"] + t["unless"]})
    in_unless = {g for t in trans for g in t["unless"]}
    for name in used:
        provs = [draw(st.sampled_from(ctor_provs))]
        # a name used in `unless` gets one provider: what "falsy on several providers" means is not documented
        if multi_provider and len(ctor_provs) > 1 and name not in in_unless and draw(st.integers(0, 9)) < 3:
            provs = ctor_provs[:2]
        if "func" in guard_kinds and len(provs) == 1 and draw(st.integers(0, 5)) == 0:
            # the guard is a free function handed over as an object (cond=fn, unless=fn)
            gdefs.append({"name": name, "prov": "free", "kind": "func", "async": False, "multi": False})
            continue
        for prov in provs:
            gdefs.append({"name": name, "prov": prov, "kind": draw(st.sampled_from([k_ for k_ in guard_kinds if k_ != "func"])), "async": False, "multi": len(provs) > 1})

    # scripts
    first_def = {}
    for c in cbs:
        key = (c["name"], c["prov"])
        if key in first_def:
            c["ret"] = first_def[key]["ret"]
            continue
        first_def[key] = c
        c["ret"] = draw(st.sampled_from(rets))
        if sends and c["group"] != "validators" and draw(st.integers(0, 9)) < 3:
            script = {}
            for occ in draw(st.lists(st.sampled_from([0, 1]), min_size=1, max_size=2, unique=True)):
                items = []
                for _ in range(draw(st.sampled_from([1, 1, 2]))):
                    ev = draw(st.sampled_from(events + (["nope"] if send_unknown else [])))
                    payload_ctr[0] += 1
                    items.append([ev, [payload_ctr[0]] if (payload and draw(st.booleans())) else [], {"n": payload_ctr[0]} if payload else {}])
                script[str(occ)] = items
            c["sends"] = script

    # async mask
    # a coroutine guard whose name has several providers is combined without awaiting (finding K1): kept sync
    everything = cbs + [g for g in gdefs if g["kind"] in ("method", "func") and not g.get("multi")]
    if async_mode == "all":
        for c in everything:
            c["async"] = True
    elif async_mode == "mixed":
        for c in everything:
            c["async"] = draw(st.booleans())
        if everything and not any(c["async"] for c in everything):
            everything[0]["async"] = True
    elif async_mode == "one" and everything:
        draw(st.sampled_from(everything))["async"] = True
    elif async_mode == "late-only":
        # the first coroutines arrive with a listener attached after construction
        for c in everything:
            c["async"] = c["prov"] in late
    if any(c["async"] for c in everything):
        for c in cbs:
            # a plain function cannot await the nested send of an async machine (its return value is finding K7); the
            # event itself must still be queued and processed, so a minority of plain senders is kept
            if c["sends"] and draw(st.integers(0, 9)) < 7:
                c["async"] = True
        for c in cbs:
            if c["async"]:
                c["yields"] = draw(st.sampled_from([0, 0, 1, 2, 4]))
        for g in gdefs:
            if g.get("async"):
                g["yields"] = draw(st.sampled_from([0, 1, 2, 4]))
    # when the machine class itself has a genuine coroutine method (so every instance runs on the async engine), some of the other
    # coroutine callbacks are written as plain functions that return the awaitable
    if any(c["async"] and c["prov"] == "machine" and not c.get("instance") and c["attach"] != "bound" for c in cbs):
        anchor = next(c for c in cbs if c["async"] and c["prov"] == "machine" and not c.get("instance") and c["attach"] != "bound")
        for c in cbs:
            if c["async"] and (c["name"], c["prov"]) != (anchor["name"], anchor["prov"]) and first_def[(c["name"], c["prov"])] is c and draw(st.integers(0, 4)) == 0:
                c["deferred"] = True
    for c in cbs:  # defs sharing one function agree on everything
        f = first_def[(c["name"], c["prov"])]
        c["async"], c["yields"] = f["async"], f["yields"]
        if f.get("deferred"):
            c["deferred"] = True
    spec = {"states": states, "trans": trans, "cbs": cbs, "guards": gdefs, "events": events}
    if sends and any(c["sends"] for c in cbs) and draw(st.integers(0, 4)) == 0:
        # callbacks that send also attach a (callback-less) listener first: attaching must not disturb the processing in progress
        spec["attach_in_callbacks"] = True
    # the constructor's parameters are public, in the documented order (model, state_field, start_value, rtc,
    # allow_event_without_transition, listeners): some machines are created with positional arguments (added after round 6, C03k)
    if draw(st.integers(0, 3)) == 0:
        spec["ctor_positional"] = True
    return spec


def deferred_ok(spec):
    """`deferred` callbacks (plain functions returning an awaitable) are only rendered as such while the machine class itself keeps
    a genuine coroutine method, so that every instance runs on the async engine whatever else a property module removed"""
    return any(c.get("async") and not c.get("deferred") and c["prov"] == "machine" and not c.get("instance") for c in spec["cbs"])


def is_async_spec(spec, providers=None, instance_cbs=True):
    dok = deferred_ok(spec)

    def att(d):
        if d.get("instance") and not instance_cbs:
            return False  # a callback that exists on one provider object only, and not on this instance's provider
        return providers is None or d["prov"] in providers or d["prov"] in ("machine", "free", "ext")

    # (a plain function that returns an awaitable - "deferred" - does not make a machine asynchronous)
    return any(c.get("async") and not (dok and c.get("deferred")) and att(c) for c in spec["cbs"]) or any(g.get("async") and att(g) for g in spec.get("guards", []))


@st.composite
def history(draw, spec, *, max_steps=25, unknown=True, args=True):
    """List of steps; each step re-draws part of the guard valuation and sends one event."""
    from .core import cbid_of

    gids = [cbid_of(g) for g in spec.get("guards", [])]
    vids = [cbid_of(c) for c in spec["cbs"] if c["group"] == "validators"]
    evs = list(spec["events"])
    steps = []
    n = draw(st.integers(1, max_steps))
    ctr = 1000
    for _ in range(n):
        val = {}
        for g in gids:
            if draw(st.integers(0, 9)) < 5:
                # guards return truthy / falsy values of any type, not only booleans
                val[g] = draw(st.sampled_from(TRUTHY)) if draw(st.integers(0, 9)) < 6 else draw(st.sampled_from(FALSY))
        for v in vids:
            if draw(st.integers(0, 9)) < 5:
                val[v] = draw(st.integers(0, 9)) < 2
        if unknown and draw(st.integers(0, 9)) < 1:
            ev = draw(st.sampled_from(UNKNOWN_EVENTS))
        else:
            ev = draw(st.sampled_from(evs))
        ctr += 1
        a = [ctr] if (args and draw(st.booleans())) else []
        kw = {"n": ctr} if (args and draw(st.booleans())) else {}
        steps.append({"val": val, "ev": ev, "args": a, "kw": kw, "style": "send"})
    return steps


@st.composite
def add_bundle(draw, spec):
    """Append a bundle of transitions that can be declared with one call: two targets from one source (a.to(b, c)), two
    sources into one target (c.from_(a, b)) or one event from every non-final state (from_.any()).  Returns the bundle list."""
    n = len(spec["states"])
    nonfinal = [i for i, s in enumerate(spec["states"]) if not s["final"]]
    bundles = []

    def guards():
        return draw(st.lists(st.sampled_from([g["name"] for g in spec["guards"]]), max_size=1, unique=True)) if spec["guards"] else []

    def add(src, dst, events, cond, unless):
        spec["trans"].append({"src": src, "dst": dst, "events": list(events), "internal": False, "cond": list(cond), "unless": list(unless)})
        return len(spec["trans"]) - 1

    kind = draw(st.sampled_from([None, "multi-target", "multi-source", "any", "any", "any2"]))
    if kind == "multi-target" and n >= 2:
        src = draw(st.sampled_from(nonfinal))
        dsts = draw(st.lists(st.integers(0, n - 1), min_size=2, max_size=min(3, n), unique=True))
        evs = draw(st.lists(st.sampled_from(spec["events"] + ["bundle"]), min_size=1, max_size=2, unique=True))
        c = guards()
        bundles.append({"k": [add(src, d, evs, c, []) for d in dsts], "how": "multi-target"})
    elif kind == "multi-source" and len(nonfinal) >= 2:
        srcs = draw(st.lists(st.sampled_from(nonfinal), min_size=2, max_size=min(3, len(nonfinal)), unique=True))
        dst = draw(st.integers(0, n - 1))
        evs = draw(st.lists(st.sampled_from(spec["events"] + ["bundle"]), min_size=1, max_size=2, unique=True))
        c = guards()
        bundles.append({"k": [add(s_, dst, evs, c, []) for s_ in srcs], "how": "multi-source"})
    elif kind == "any":
        dst = draw(st.integers(0, n - 1))
        c, u = guards(), []
        if spec["guards"] and draw(st.booleans()):
            u = [x for x in [draw(st.sampled_from([g["name"] for g in spec["guards"]]))] if x not in c and sum(1 for g in spec["guards"] if g["name"] == x) == 1]
        bundles.append({"k": [add(s_, dst, ["anyev"], c, u) for s_ in nonfinal], "how": "any"})
    elif kind == "any2" and len(spec["guards"]) >= 1:
        # two alternatives of one event, both declared with from_.any() into the same target, told apart by their guards
        dst = draw(st.integers(0, n - 1))
        names = [g["name"] for g in spec["guards"]]
        c1 = [draw(st.sampled_from(names))]
        c2 = [x for x in [draw(st.sampled_from(names))] if x not in c1]
        bundles.append({"k": [add(s_, dst, ["anyev"], c1, []) for s_ in nonfinal], "how": "any"})
        bundles.append({"k": [add(s_, dst, ["anyev"], c2, []) for s_ in nonfinal], "how": "any"})
    # callbacks given to the bundle declaration itself (every transition the one call produces carries them)
    is_async = is_async_spec(spec)
    for bi, b in enumerate(bundles):
        for j in range(draw(st.integers(0, 2))):
            grp = draw(st.sampled_from(["validators", "validators", "before", "on", "after"]))
            attach = draw(st.sampled_from(["name", "func"]))
            spec["cbs"].append({"name": f"b{bi}_{grp}{j}", "group": grp, "scope": ["trans", list(b["k"])], "attach": attach, "prov": "machine" if attach == "name" else "free",
                                "async": is_async and draw(st.booleans()), "yields": 0, "ret": draw(st.sampled_from([None, 1, "r"])), "sends": {}})
    for t in spec["trans"]:
        for e in t["events"]:
            if e not in spec["events"]:
                spec["events"].append(e)
    return bundles
