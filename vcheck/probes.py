"""Probe cases for the genuine defects that are recorded (not repaired) in known_findings.json.

The core generators exclude these input classes by construction (hypothesis stops at the first failure); each class is
exercised here by one or a few concrete cases through the public API.  A probe returns None when the property holds on
it (the finding no longer reproduces) or a description of what fails.  The signature `<PID>:known-<Kn>` is what
known_findings.json lists, so any *other* violation of the same property is still reported as VIOLATION."""
from __future__ import annotations

import asyncio
import copy
import gc
import warnings

from statemachine import State, StateMachine
from statemachine.exceptions import InvalidDefinition, TransitionNotAllowed


def k1():
    """coroutine guard used as an operand of a compound expression (or provided by several objects) is never awaited"""
    class M(StateMachine):
        s1 = State(initial=True)
        s2 = State(final=True)
        go = s1.to(s2, cond="a and b")

        async def a(self):
            return False

        async def b(self):
            return True

        async def on_go(self):
            return "fired"

    sm = M()
    with warnings.catch_warnings():
        warnings.simplefilter("ignore")
        try:
            r = sm.send("go")
        except TransitionNotAllowed:
            return None
        gc.collect()
    return f"cond='a and b' with coroutine a() -> False fired the transition (result {r!r}): the coroutine object was used as a truthy value"


def k2():
    """a subclass that declares a transition on an inherited State mutates the base class"""
    class Base(StateMachine):
        a = State(initial=True)
        b = State(final=True)
        go = a.to(b)

    before = [str(e) for e in Base().allowed_events]
    with warnings.catch_warnings():
        warnings.simplefilter("ignore")

        class Sub(Base):
            c = State(final=True)
            jump = Base.a.to(c)

    sm = Base()
    try:
        after = [str(e) for e in sm.allowed_events]
    except Exception as e:
        return f"after defining a subclass with jump = Base.a.to(c), Base().allowed_events raises {type(e).__name__}: {e}"
    if after != before:
        return f"defining a subclass changed the base class: allowed_events {before} -> {after}"
    return None


def k3():
    """re-attaching a constructor listener that co-provides a guard name evaluates its guard twice"""
    calls = []

    class L:
        def ok(self):
            calls.append("listener")
            return True

    class M(StateMachine):
        s1 = State(initial=True)
        go = s1.to.itself(cond="ok")

        def ok(self):
            return True

    l = L()
    sm = M(listeners=[l])
    sm.add_listener(l)
    sm.send("go")
    if calls != ["listener"]:
        return f"after add_listener() of an already attached listener its guard ran {len(calls)} times for one event"
    return None


def k4():
    """operator spellings are rewritten inside string literals"""
    class M(StateMachine):
        s1 = State(initial=True)
        s2 = State(final=True)
        go = s1.to(s2, cond="x == 'a v b'")
        x = "a v b"

    try:
        sm = M()
        sm.send("go")
    except TransitionNotAllowed:
        return "cond=\"x == 'a v b'\" with x = 'a v b' does not fire: the 'v' inside the string literal was rewritten to 'or'"
    except InvalidDefinition as e:
        return f"cond=\"x == 'a v b'\" rejected: {e}"
    return None


def k5():
    """a state whose id is 'i' collides with the initial pseudo-node of the diagram"""
    class M(StateMachine):
        i = State(initial=True)
        j = State(final=True)
        go = i.to(j)

    g = M._graph() if hasattr(M, "_graph") and False else None
    from statemachine.contrib.diagram import DotGraphMachine

    g = DotGraphMachine(M)()
    names = [n.get_name().strip('"') for n in g.get_nodes()]
    if sorted(names) != ["i", "i", "j"] and len(names) != 3:
        return f"nodes of a machine with a state called 'i': {names}"
    if names.count("i") != 1:
        return f"a state with id 'i' and the initial pseudo-node share the node name 'i': nodes {names}"
    return None


def k6():
    """a late listener providing one operand of a compound expression is ignored"""
    class L:
        a = False

    class M(StateMachine):
        s1 = State(initial=True)
        s2 = State(final=True)
        go = s1.to(s2, cond="a and b")
        a = True
        b = True

    sm_ctor = M(listeners=[L()])
    try:
        sm_ctor.send("go")
        ctor = "fired"
    except TransitionNotAllowed:
        ctor = "blocked"
    sm_late = M()
    sm_late.add_listener(L())
    try:
        sm_late.send("go")
        late = "fired"
    except TransitionNotAllowed:
        late = "blocked"
    if ctor != late:
        return f"listener with a=False: passed to the constructor the guard 'a and b' is {ctor}, attached with add_listener it is {late}"
    return None


def k7():
    """in a machine with coroutine callbacks, a nested send from a plain-function callback returns a coroutine object, not None"""
    seen = []

    class M(StateMachine):
        s1 = State(initial=True)
        s2 = State()
        go = s1.to(s2)
        back = s2.to(s1)

        def on_go(self):
            r = self.send("back")
            seen.append(r)
            if asyncio.iscoroutine(r):
                r.close()

        async def on_back(self):
            return 1

    sm = M()
    with warnings.catch_warnings():
        warnings.simplefilter("ignore")
        sm.send("go")
        gc.collect()
    if seen and seen[0] is not None:
        return f"nested send from a plain callback of an async machine returned {type(seen[0]).__name__} instead of None"
    return None


def k8():
    """the same name in cond and unless of one transition: the unless entry is silently dropped"""
    class M(StateMachine):
        s1 = State(initial=True)
        s2 = State(final=True)
        go = s1.to(s2, cond="x", unless="x")
        x = True

    sm = M()
    try:
        sm.send("go")
    except TransitionNotAllowed:
        return None
    return "a.to(b, cond='x', unless='x') with x truthy fires: the unless entry was dropped"


def k9():
    """two cond entries denoting the same expression make a valid machine fail to instantiate"""
    class M(StateMachine):
        s1 = State(initial=True)
        s2 = State(final=True)
        go = s1.to(s2, cond=["x == 1", "x == '1'"])
        x = 1

    try:
        M()
    except InvalidDefinition as e:
        return f"cond=[\"x == 1\", \"x == '1'\"] is rejected at instantiation: {e}"
    return None


PROBES = {
    "K1": (k1, ["C05", "C08"]),
    "K2": (k2, ["C16"]),
    "K3": (k3, ["C12"]),
    "K4": (k4, ["C08"]),
    "K5": (k5, ["C18"]),
    "K6": (k6, ["C12"]),
    "K7": (k7, ["C03", "C05"]),
    "K8": (k8, ["C01", "C08"]),
    "K9": (k9, ["C08"]),
}


def for_property(pid):
    for kid, (fn, pids) in sorted(PROBES.items()):
        if pid in pids:
            yield kid, fn
