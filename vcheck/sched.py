"""Schedulers owned by the harness (C06).

ThreadSched: cooperative scheduler for real OS threads.  Exactly one worker runs at a time (per-thread semaphore); every
`line` event that sys.settrace delivers for code living in the statemachine package, and every explicit `point()` inside
user callbacks, is a numbered step.  A schedule is a list of (step, target): when the global step counter reaches `step`
the running worker is pre-empted in favour of worker `target` (None = next alive worker, round robin).  `idle()` is a
voluntary yield (between two sends of one sender).  If the worker that was switched to makes no step (it blocks on a short
library-internal lock held by the pre-empted worker) the pre-emption is taken back and counted as infeasible.

GateSched: asyncio; coroutine callbacks await `point(tag)`; a controller releases the waiting gates in the order given by a
list of choices, once everything runnable has run.
"""
from __future__ import annotations

import asyncio
import os
import sys
import threading

import statemachine

from .core import HarnessError

PKG = os.path.dirname(os.path.abspath(statemachine.__file__)) + os.sep


class ThreadSched:
    def __init__(self, nworkers, schedule=(), trace_names=False, block_timeout=0.2):
        self.n = nworkers
        self.cv = threading.Condition()
        self.alive = [True] * nworkers
        self.step = 0
        self.plan = {}
        for stp, tgt in schedule:
            self.plan.setdefault(stp, tgt)
        self.trace_names = trace_names
        self.names = []  # (step, worker, "<dir>/<file>:<function>") of every step (baseline runs only)
        self.switches = 0
        self.infeasible = 0  # pre-emptions taken back because the other worker blocked on a lock the pre-empted one holds
        self.current = None
        self.errors = []
        self.block_timeout = block_timeout

    # ---- tracing
    def _tracer(self, wid):
        def local(frame, event, arg):
            if event == "line":
                self.at_step(wid, (os.path.basename(os.path.dirname(frame.f_code.co_filename)) + "/" + os.path.basename(frame.f_code.co_filename) + ":" + frame.f_code.co_name) if self.trace_names else None)
            return local

        def glob(frame, event, arg):
            if event == "call" and frame.f_code.co_filename.startswith(PKG):
                return local
            return None

        return glob

    def _next_alive(self, wid):
        for d in range(1, self.n + 1):
            j = (wid + d) % self.n
            if j != wid and self.alive[j]:
                return j
        return None

    def _await_turn_locked(self, wid):
        """cv is held. Wait until it is this worker's turn.  If nobody makes a step for a whole timeout, the worker holding the
        turn is blocked on a (short, library-internal) lock held by a waiting worker: such a schedule is not feasible as
        planned, so a waiting worker takes the turn (if it is not the lock holder it will block or wait in turn, and the next
        one takes over).  A spurious take-over under heavy machine load only adds real concurrency for one source line."""
        mark = self.step
        while self.current != wid:
            if self.cv.wait(self.block_timeout):
                continue
            if self.current == wid:
                break
            if self.step != mark:
                mark = self.step
                continue
            self.infeasible += 1
            self.current = wid
            self.cv.notify_all()

    def _wait_turn(self, wid):
        with self.cv:
            self._await_turn_locked(wid)

    def _switch(self, wid, tgt):
        if tgt is None or tgt == wid or not self.alive[tgt]:
            return
        with self.cv:
            self.switches += 1
            self.current = tgt
            self.cv.notify_all()
            self._await_turn_locked(wid)

    def at_step(self, wid, name=None):
        if self.current != wid:
            self._wait_turn(wid)
        self.step += 1
        if name is not None:
            self.names.append((self.step, wid, name))
        if self.step in self.plan:
            tgt = self.plan[self.step]
            self._switch(wid, self._next_alive(wid) if tgt is None else tgt)

    # ---- called from user code
    def point(self):
        """explicit pre-emption point inside a user callback"""
        wid = self._wid()
        if wid is not None:
            self.at_step(wid, "<callback>" if self.trace_names else None)

    def idle(self):
        """voluntary yield between two sends of one sender"""
        wid = self._wid()
        if wid is not None:
            if self.current != wid:
                self._wait_turn(wid)
            self._switch(wid, self._next_alive(wid))

    def _wid(self):
        return getattr(threading.current_thread(), "_wid", None)

    def run(self, bodies, timeout=30):
        threads = []

        def worker(wid, body):
            self._wait_turn(wid)
            sys.settrace(self._tracer(wid))
            try:
                body()
            except BaseException as e:  # recorded; the invariants decide
                self.errors.append((wid, e))
            finally:
                sys.settrace(None)
                with self.cv:
                    self.alive[wid] = False
                    if self.current == wid or self.current is None or not self.alive[self.current]:
                        self.current = self._next_alive(wid)
                    self.cv.notify_all()

        for i, b in enumerate(bodies):
            t = threading.Thread(target=worker, args=(i, b), daemon=True)
            t._wid = i
            threads.append(t)
            t.start()
        with self.cv:
            self.current = 0
            self.cv.notify_all()
        for t in threads:
            t.join(timeout)
        if any(t.is_alive() for t in threads):
            raise HarnessError("thread scheduler deadlock (harness bug): workers did not finish")


class GateSched:
    def __init__(self, choices, cycle=True):
        self.choices = list(choices)
        self.cycle = cycle  # False: choices beyond the given vector are 0 (exhaustive enumeration extends the vector)
        self.waiting = []
        self.trace = []
        self.released = 0
        self.branching = []  # number of waiting gates at each release (the branching factor of the schedule tree)

    async def point(self, tag):
        fut = asyncio.get_running_loop().create_future()
        self.waiting.append((tag, fut))
        await fut

    async def drive(self, tasks):
        spins = 0
        while True:
            for _ in range(30):  # let everything runnable run until quiescent
                await asyncio.sleep(0)
            if all(t.done() for t in tasks) and not self.waiting:
                return
            if not self.waiting:
                spins += 1
                if spins > 200:
                    raise HarnessError("gate scheduler: tasks neither finish nor wait at a gate")
                continue
            spins = 0
            if self.cycle:
                c = self.choices[self.released % len(self.choices)] if self.choices else 0
            else:
                c = self.choices[self.released] if self.released < len(self.choices) else 0
            self.branching.append(len(self.waiting))
            i = c % len(self.waiting)
            tag, fut = self.waiting.pop(i)
            self.released += 1
            self.trace.append(tag)
            fut.set_result(None)
