"""Shared machinery: abstract machine spec -> real StateMachine class (render), the recorder (H) and the
reference interpreter (Interp), which is a recursive-descent parser over the callback log recorded by a real run.

Nothing in here imports private names of the library and no verdict reads private state.

Spec (plain JSON data, it *is* the replay format)
-------------------------------------------------
spec = {
  "states": [{"id": "s0", "initial": True, "final": False, "value": <codec value>|absent, "name": str|absent}, ...],
  "trans":  [{"src": 0, "dst": 1, "events": ["go"], "internal": False, "cond": [...], "unless": [...]}, ...]   # declaration order
  "cbs":    [{"name": "before_go", "group": "before", "scope": ["event","go"] | ["generic"] | ["state", i] | ["trans", [k,..]],
              "attach": "conv"|"name"|"func"|"deco", "prov": "machine"|"model"|"l0"|"l1"|"late0"|"free",
              "async": bool, "yields": int, "ret": <codec value>, "sends": {occ: [[event, args, kwargs], ...]}}, ...]
  "guards": [{"name": "g0", "prov": "machine", "kind": "method"|"property"|"attr", "async": bool}, ...]
}
cond/unless entries are guard *names* (or expression strings over guard names, used by C08 only).
A callback/guard is identified by cbid = name@prov.
"""
from __future__ import annotations

import asyncio
import enum
from functools import partial
import itertools
import operator
import sys
import types
import warnings
from collections import Counter, deque
from inspect import isawaitable

from statemachine import Event, State, StateMachine
from statemachine.states import States
from statemachine.exceptions import TransitionNotAllowed

BUILTINS = ("event_data", "machine", "event", "model", "transition", "state", "source", "target")
ACTION_GROUPS = ("validators", "before", "exit", "on", "enter", "after")
UID = itertools.count()
HARNESS_MODULE = sys.modules[__name__]


# ------------------------------------------------------------------------------------------ value codec
class Color(enum.Enum):
    """Enum whose members are used as state values ({"$e": name})."""

    A = 1
    B = 2
    C = 3
    D = 4
    E = 5
    F = 6
    Z = 0


class IColor(enum.IntEnum):
    A = 1
    B = 2
    C = 3
    D = 4
    E = 5
    F = 6
    Z = 0


# enums whose member NAMES are the state ids s0..s(n-1): States.from_enum(EN[n], ..., use_enum_instance=True) makes the members
# themselves the state values ({"$en": [n, "s1"]}); the IntEnum family has a falsy member (value 0) on s0
EN = {n: enum.Enum(f"EN{n}", {f"s{i}": chr(97 + i) for i in range(n)}, module=__name__) for n in range(1, 8)}
IEN = {n: enum.IntEnum(f"IEN{n}", {f"s{i}": i for i in range(n)}, module=__name__) for n in range(1, 8)}
for _n in EN:
    globals()[f"EN{_n}"], globals()[f"IEN{_n}"] = EN[_n], IEN[_n]  # (importable by name: pickle)


def dec(v):
    """JSON-able value -> python value ({"$t": [...]} tuple, {"$fs": [...]} frozenset, {"$e": n} Color member, {"$ie": n} IColor)."""
    if isinstance(v, dict):
        if set(v) == {"$en"}:
            return EN[v["$en"][0]][v["$en"][1]]
        if set(v) == {"$ien"}:
            return IEN[v["$ien"][0]][v["$ien"][1]]
        if set(v) == {"$e"}:
            return Color[v["$e"]]
        if set(v) == {"$ie"}:
            return IColor[v["$ie"]]
        if set(v) == {"$t"}:
            return tuple(dec(x) for x in v["$t"])
        if set(v) == {"$fs"}:
            return frozenset(dec(x) for x in v["$fs"])
        return {k: dec(x) for k, x in v.items()}
    if isinstance(v, list):
        return [dec(x) for x in v]
    return v


def cbid_of(d):
    return f"{d['name']}@{d['prov']}"


class Boom(Exception):
    """The injected failure. Carries the callback id and occurrence that raised it."""

    def __init__(self, cbid, occ):
        super().__init__(f"{cbid}#{occ}")
        self.cbid = cbid
        self.occ = occ

    def __reduce__(self):
        return (Boom, (self.cbid, self.occ))


class HarnessError(Exception):
    """The harness itself is inconsistent (exit code 2, never a violation)."""


class Script:
    """Scripted nested sends of one callback: {occurrence: [[event, args, kwargs], ...]}; the key "*" with
    {"upto": L, "items": [...]} gives the same sends to every occurrence below L (self-triggering chains)."""

    def __init__(self, sends):
        self.star = sends.get("*")
        self.by_occ = {int(k): v for k, v in sends.items() if k != "*"}

    def get(self, occ, default=()):
        if occ in self.by_occ:
            return self.by_occ[occ]
        if self.star is not None and occ < self.star["upto"]:
            return self.star["items"]
        return default

    def __bool__(self):
        return bool(self.by_occ) or self.star is not None


# ------------------------------------------------------------------------------------------ recorder
class Bystander:
    """a listener without any callback (attached from inside callbacks when the spec says so)"""


class H:
    """Per-instance recorder / script holder, reachable from machine, model and listeners (so a deep copy of
    the machine gets its own copy and logs there)."""

    def __init__(self, spec):
        self.log = []
        self.val = {}
        self.occ = Counter()
        self.fault = None  # (cbid, occ)
        self.fault_kind = "boom"  # boom | tna | value | key | attr
        self.guard_fault = None  # cbid of a guard that raises when it is evaluated
        self.raised = []
        self.sends, self.rets, self.yields = {}, {}, {}
        for c in spec["cbs"]:  # several defs may share one cbid (same function attached to several groups): first wins
            cid = cbid_of(c)
            if cid in self.sends:
                continue
            self.sends[cid] = Script(c.get("sends", {}))
            self.rets[cid] = dec(c.get("ret"))
            self.yields[cid] = c.get("yields", 0)
        self.depth = False
        self.no_sender_yields = False
        # a callback attaches one more (callback-less) listener to its machine right before each nested send
        self.attach_before_send = bool(spec.get("attach_in_callbacks"))
        self.guard_yields = {cbid_of(g): g.get("yields", 0) for g in spec.get("guards", [])}
        self.attr_guards = {cbid_of(g) for g in spec.get("guards", []) if g.get("kind") == "attr"}

    def frame_depth(self):
        f = sys._getframe(2)
        n = 0
        while f is not None:
            n += 1
            f = f.f_back
        return n


def _info(H, args, machine, event, state, source, target, kwargs):
    try:
        cur = machine.current_state_value
    except Exception as e:  # pragma: no cover - recorded, decided by the interpreter
        cur = f"<{type(e).__name__}>"
    info = {
        "event": str(event),
        "state": getattr(state, "id", None),
        "source": getattr(source, "id", None),
        "target": getattr(target, "id", None),
        "cur": cur,
        "args": list(args),
        "kw": {k: v for k, v in kwargs.items() if k not in BUILTINS},
    }
    if H.depth:
        info["depth"] = H.frame_depth()
    return info


def make_action(cbid, group, is_async, free, deferred=False):
    """One generated action/validator callback.  Body: begin record, scripted yields, injected fault,
    scripted nested sends (each with a marker before and a record of what it returned), end record, scripted return.
    When the provider object carries `_prov` (several listeners of one class) the callback id uses that provider name."""
    cb = _make_action(cbid, group, is_async, free)
    if deferred and is_async:
        # a PLAIN function that hands back an awaitable (a wrapper / lambda delegating to a coroutine function, an event trigger
        # used as an action): the async engine awaits whatever awaitable a callback returns
        acb = cb
        if free:

            def cb(*args, machine, event, state, source, target, **kwargs):
                return acb(*args, machine=machine, event=event, state=state, source=source, target=target, **kwargs)
        else:

            def cb(self, *args, machine, event, state, source, target, **kwargs):
                return acb(self, *args, machine=machine, event=event, state=state, source=source, target=target, **kwargs)
    return cb


def _resolve(cbid, obj):
    prov = getattr(obj, "_prov", None)
    return cbid if prov is None else cbid.split("@")[0] + "@" + prov


def _make_action(cbid0, group, is_async, free):
    def pre(cbid, args, machine, event, state, source, target, kwargs):
        Hh = machine.H
        occ = Hh.occ[cbid]
        Hh.occ[cbid] += 1
        Hh.log.append(("B", cbid, occ, _info(Hh, args, machine, event, state, source, target, kwargs)))
        return Hh, occ

    def maybe_fault(cbid, Hh, occ, event=None, state=None):
        if Hh.fault == (cbid, occ) or (group == "validators" and Hh.val.get(cbid)):
            Hh.log.append(("X", cbid, occ))
            kind = Hh.fault_kind if Hh.fault == (cbid, occ) else "boom"
            if kind == "tna":
                # a callback may raise the library's own exception (e.g. it forwards an event to another strict machine)
                exc = TransitionNotAllowed(event, state)
                exc.cbid, exc.occ = cbid, occ
            elif kind in ("value", "key", "attr", "stop"):
                exc = {"value": ValueError, "key": KeyError, "attr": AttributeError, "stop": StopIteration}[kind](f"{cbid}#{occ}")
                exc.cbid, exc.occ = cbid, occ
            else:
                exc = Boom(cbid, occ)
            Hh.raised.append(exc)
            raise exc

    if is_async:

        async def body(cbid, args, machine, event, state, source, target, kwargs):
            Hh, occ = pre(cbid, args, machine, event, state, source, target, kwargs)
            script = Hh.sends[cbid].get(occ, ())
            if not (Hh.sends[cbid] and Hh.no_sender_yields):
                for _ in range(Hh.yields[cbid]):
                    await asyncio.sleep(0)
            maybe_fault(cbid, Hh, occ, event, state)
            for i, (ev, a, kw) in enumerate(script):
                Hh.log.append(("S", cbid, occ, i))
                try:
                    if Hh.attach_before_send:
                        machine.add_listener(Bystander())
                    r = machine.send(ev, *a, **kw)
                    if isawaitable(r):
                        r = await r
                except Exception as e:
                    Hh.log.append(("R", cbid, occ, i, "exc", type(e).__name__))
                    raise
                Hh.log.append(("R", cbid, occ, i, "ok", r))
            Hh.log.append(("E", cbid, occ))
            return Hh.rets[cbid]

        if free:

            async def cb(*args, machine, event, state, source, target, **kwargs):
                return await body(cbid0, args, machine, event, state, source, target, kwargs)
        else:

            async def cb(self, *args, machine, event, state, source, target, **kwargs):
                return await body(_resolve(cbid0, self), args, machine, event, state, source, target, kwargs)
    else:

        def body(cbid, args, machine, event, state, source, target, kwargs):
            Hh, occ = pre(cbid, args, machine, event, state, source, target, kwargs)
            maybe_fault(cbid, Hh, occ, event, state)
            for i, (ev, a, kw) in enumerate(Hh.sends[cbid].get(occ, ())):
                Hh.log.append(("S", cbid, occ, i))
                try:
                    if Hh.attach_before_send:
                        machine.add_listener(Bystander())
                    r = machine.send(ev, *a, **kw)
                except Exception as e:
                    Hh.log.append(("R", cbid, occ, i, "exc", type(e).__name__))
                    raise
                if isawaitable(r):
                    # plain callback of a machine that runs on the async engine: the event is queued, but the call hands
                    # back a coroutine a plain function cannot await (known finding K7, about the return value only)
                    r.close()
                    r = "<coroutine>"
                Hh.log.append(("R", cbid, occ, i, "ok", r))
            Hh.log.append(("E", cbid, occ))
            return Hh.rets[cbid]

        if free:

            def cb(*args, machine, event, state, source, target, **kwargs):
                return body(cbid0, args, machine, event, state, source, target, kwargs)
        else:

            def cb(self, *args, machine, event, state, source, target, **kwargs):
                return body(_resolve(cbid0, self), args, machine, event, state, source, target, kwargs)

    return cb


def _guard_fault(Hh, cbid):
    if Hh.guard_fault == cbid:
        Hh.log.append(("X", cbid, -1))
        kind = getattr(Hh, "guard_fault_kind", "boom")
        if kind in ("stop", "value"):
            # (e.g. a bare next() on an exhausted iterator inside a guard: an exception like any other)
            exc = {"stop": StopIteration, "value": ValueError}[kind](f"{cbid}#-1")
            exc.cbid, exc.occ = cbid, -1
        else:
            exc = Boom(cbid, -1)
        Hh.raised.append(exc)
        raise exc


def make_guard(cbid0, kind, is_async):
    if kind == "property":

        def fget(self):
            cbid = _resolve(cbid0, self)
            self.H.log.append(("G", cbid))
            _guard_fault(self.H, cbid)
            return self.H.val.get(cbid, False)

        return property(fget)
    if is_async:

        async def g(self, *args, machine, **kwargs):
            cbid = _resolve(cbid0, self)
            Hh = machine.H
            Hh.log.append(("G", cbid, "b"))
            _guard_fault(Hh, cbid)
            for _ in range(Hh.guard_yields.get(cbid, 0)):
                await asyncio.sleep(0)
            Hh.log.append(("G", cbid, "e"))  # a coroutine guard must have ended before any later phase starts
            return Hh.val.get(cbid, False)
    else:

        def g(self, *args, machine, **kwargs):
            cbid = _resolve(cbid0, self)
            machine.H.log.append(("G", cbid))
            _guard_fault(machine.H, cbid)
            return machine.H.val.get(cbid, False)

    if kind == "func":
        if is_async:

            async def free(*args, machine, **kwargs):
                return await g(None, *args, machine=machine, **kwargs)
        else:

            def free(*args, machine, **kwargs):
                return g(None, *args, machine=machine, **kwargs)

        return free
    return g


def _name(fn, name, qual):
    target = fn.fget if isinstance(fn, property) else fn
    target.__name__ = name
    target.__qualname__ = qual
    return fn


class Rendered:
    """A rendered spec: the machine class plus factories for model and listeners."""

    def __init__(self, spec, cls, provider_classes, uid):
        self.spec = spec
        self.cls = cls
        self.provider_classes = provider_classes
        self.uid = uid

    def providers(self):
        return sorted(self.provider_classes)

    def new_H(self):
        return H(self.spec)

    def make(self, *, rtc=True, allow=False, Hh=None, model=None, model_given=False, listeners=None, late=(), instance_cbs=True, extra_ctor=(), **kw):
        """Instantiate. Without `model_given` the model is the generated model class when the spec places callbacks on it,
        else the library default; with it, `model` is the user object (may be falsy). Returns (sm, H)."""
        if getattr(self, "base_cls", None) is not None and not getattr(self, "_base_used", False):
            # "extend" style: the class that the subject extends is instantiated and looked at first (a cache kept per class must
            # not be found through the MRO by the extending class).  What the base instance does is not judged here.
            self._base_used = True
            sub, self.cls = self.cls, self.base_cls
            try:
                with warnings.catch_warnings():
                    warnings.simplefilter("ignore")
                    smb, _h = self.make(allow=True, instance_cbs=instance_cbs)
                    smb.current_state
                    list(smb.allowed_events)
            except HarnessError:
                raise
            except Exception:
                pass
            finally:
                self.cls = sub
        Hh = Hh or self.new_H()
        objs = {}
        same = self.spec.get("same_class", {})
        for prov, pcls in self.provider_classes.items():
            o = pcls()
            o.H = Hh
            if prov in same or prov in same.values():
                o._prov = prov
            if instance_cbs:
                for name, fn in getattr(self, "instance_fns", {}).get(same.get(prov, prov), {}).items():
                    setattr(o, name, types.MethodType(fn, o))
            objs[prov] = o
        Hh.objs = objs
        if model_given:
            objs["model"] = model
        else:
            model = objs.get("model")
        ctor_listeners = [objs[p] for p in sorted(objs) if p.startswith("l") and (not p.startswith("late") or p in extra_ctor)] if listeners is None else listeners
        kwargs = dict(rtc=rtc, allow_event_without_transition=allow, **kw)
        if model is not None:
            kwargs["model"] = model
        if ctor_listeners:
            kwargs["listeners"] = ctor_listeners
        if self.spec.get("ctor_positional"):
            # documented parameter order of StateMachine.__init__
            order = ["model", "state_field", "start_value", "rtc", "allow_event_without_transition", "listeners"]
            defaults = {"model": None, "state_field": "state", "start_value": None, "listeners": None}
            if set(kwargs) <= set(order):
                last = max(order.index(k) for k in kwargs)
                pos = [kwargs[k] if k in kwargs else defaults[k] for k in order[: last + 1]]
                sm = self.cls(Hh, *pos)
            else:
                sm = self.cls(Hh, **kwargs)
        else:
            sm = self.cls(Hh, **kwargs)
        for p in late:
            if p in objs:
                sm.add_listener(objs[p])
        return sm, Hh


def render(spec, *, cname=None, register=True):
    """Build a real StateMachine subclass from the spec (default declaration style: `src.to(dst, event="e1 e2", ...)`
    in declaration order; spec["style"] selects other documented styles).  `cname`/`register=False` are used to define
    unrelated classes that deliberately reuse the names of another generated class (C16)."""
    uid = next(UID)
    cname = cname or f"GenSM{uid}"
    ns = {}
    cbs = spec["cbs"]
    guards = spec.get("guards", [])

    from .gen import deferred_ok

    dok = deferred_ok(spec)
    funcs = {}  # cbid -> function object (for func/deco/ method placement)
    ext_objs = {}
    instance_fns = {}
    prov_ns = {}  # provider -> namespace dict
    same = spec.get("same_class", {})
    for c in cbs:
        cid = cbid_of(c)
        if cid in funcs or c["prov"] in same:
            continue
        prov = c["prov"]
        free = c["attach"] in ("func", "partial")
        fn = make_action(cid, c["group"], c.get("async", False), free, c.get("deferred", False) and dok)
        qual = f"{cname}_{prov}.{c['name']}" if not free else f"{cname}_free_{c['name']}"
        # free callables may share a __name__ (think lambdas) as long as they sit in different groups / transitions
        _name(fn, c.get("alias", c["name"]) if free else c["name"], qual)
        if c["attach"] == "partial":
            # functools.partial of a free function (needs an explicit __name__ to be attachable at all)
            fn = partial(fn)
            fn.__name__ = c.get("alias", c["name"])
        elif c["attach"] == "bound":
            # bound method of an object that is neither machine, model nor listener, passed as a callable
            ext = ext_objs.setdefault("ext", type(f"{cname}_ext", (), {"__module__": __name__})())
            setattr(type(ext), c["name"], fn)
            fn = getattr(ext, c["name"])
        funcs[cid] = fn
        if c.get("instance") and prov not in ("machine", "free", "ext"):
            # callback that exists as an attribute of ONE provider object only (set in make()), not of its class
            instance_fns.setdefault(prov, {})[c["name"]] = fn
            prov_ns.setdefault(prov, {})
        elif not free and c["attach"] != "bound":
            prov_ns.setdefault(prov, {})[c["name"]] = fn
    guard_fns = {}
    for g in guards:
        if g["prov"] in same:
            continue
        cid = cbid_of(g)
        if g.get("kind") == "attr":
            # a plain data attribute (None until a value is written on the object): read afresh at every evaluation
            prov_ns.setdefault(g["prov"], {})[g["name"]] = None
            continue
        fn = make_guard(cid, g.get("kind", "method"), g.get("async", False))
        if g.get("kind") == "func":
            # a free function passed as the guard itself: cond=fn / unless=fn (no provider object, no name lookup)
            _name(fn, g["name"], f"{cname}_free_{g['name']}")
            guard_fns[g["name"]] = fn
            continue
        _name(fn, g["name"], f"{cname}_{g['prov']}.{g['name']}")
        prov_ns.setdefault(g["prov"], {})[g["name"]] = fn

    def inline(group, scope_kind, key):
        out = []
        for c in cbs:
            if c["group"] != group or c["attach"] not in ("name", "func", "partial", "bound"):
                continue
            sc = c["scope"]
            if sc[0] != scope_kind:
                continue
            if (scope_kind == "state" and sc[1] == key) or (scope_kind == "trans" and key in sc[1]):
                item = c["name"] if c["attach"] == "name" else funcs[cbid_of(c)]
                if item not in out:
                    out.append(item)
        return out

    style = spec.get("style") or {}
    # "extend": state number `ext` and every declaration that touches it live in a subclass of the class that declares the rest
    # (`class Sub(Base): z = State(); jump = Base.a.to(z)`, as in tests/test_statemachine_inheritance.py)
    ext = style.get("extend")
    sub_ns = {}
    states = []
    for i, s in enumerate(spec["states"]):
        kw = dict(initial=s.get("initial", False), final=s.get("final", False))
        if "value" in s:
            kw["value"] = dec(s["value"])
        if s.get("name"):
            kw["name"] = s["name"]
        en, ex = inline("enter", "state", i), inline("exit", "state", i)
        if en:
            kw["enter"] = en
        if ex:
            kw["exit"] = ex
        states.append(kw)
    sstyle = style.get("states", "attr")
    if sstyle == "enum":
        # States.from_enum(Enum, initial=, final=): names are the ids, values the abstract values
        evals = {s["id"]: (dec(s["value"]) if "value" in s else s["id"]) for s in spec["states"]}
        n_ = len(evals)
        as_instance = all(isinstance(v, enum.Enum) and type(v) in (EN.get(n_), IEN.get(n_)) and v.name == k for k, v in evals.items())
        if as_instance:
            # the state values ARE the members of an existing enum: use_enum_instance=True
            E = type(next(iter(evals.values())))
        else:
            # an IntEnum when every value is an int: its zero member is falsy, which must not matter to from_enum
            ecls = enum.IntEnum if all(type(v) is int for v in evals.values()) else enum.Enum
            E = ecls(f"{cname}_E", evals)
        init = next(E[s["id"]] for s in spec["states"] if s.get("initial"))
        finals = [E[s["id"]] for s in spec["states"] if s.get("final")]
        # (a single final member may be passed bare, as in the documentation)
        sts = States.from_enum(E, initial=init, final=finals[0] if len(finals) == 1 and style.get("bare_final", True) else finals,
                               **({"use_enum_instance": True} if as_instance else {}))
        ns["_states"] = sts
        states = [getattr(sts, s["id"]) for s in spec["states"]]
    elif sstyle == "dict":
        d = {s["id"]: State(**kw) for s, kw in zip(spec["states"], states)}
        states = [d[s["id"]] for s in spec["states"]]
        if ext is not None:
            sub_ns[spec["states"][ext]["id"]] = d.pop(spec["states"][ext]["id"])
        ns["sts"] = States(d)
    else:
        states = [State(**kw) for kw in states]
        for i, (s, st) in enumerate(zip(spec["states"], states)):
            (sub_ns if i == ext else ns)[s["id"]] = st
    plan = style.get("trans") or [{"k": [k], "how": "kwstr"} for k in range(len(spec["trans"]))]
    tlists = [None] * len(spec["trans"])
    per_event = {}  # event -> [(TransitionList, how)] for class-attribute declared events
    placeholders = {}
    cur_ns = [ns]
    attr_events = {e for d in plan if d["how"] in ("attr", "event_obj", "any") for k in d["k"] for e in spec["trans"][k]["events"]}

    def tkw(k, with_event=None):
        t = spec["trans"][k]
        kw = {}
        if with_event == "kwstr":
            kw["event"] = " ".join(t["events"])
        elif with_event == "kwlist":
            kw["event"] = list(t["events"])
        elif with_event == "kw_eventobj":
            kw["event"] = [Event(e) for e in t["events"]] if len(t["events"]) > 1 else Event(t["events"][0])
        elif with_event == "kw_placeholder":
            # events declared up front as id-less Event() class attributes (they get their id from the attribute name)
            evs = []
            for e in t["events"]:
                if e in attr_events:
                    evs.append(e)  # this event is declared as a class attribute holding transitions in this plan
                else:
                    if e not in placeholders:
                        placeholders[e] = Event(name=e) if len(placeholders) % 2 else Event()
                        cur_ns[0][e] = placeholders[e]
                    evs.append(placeholders[e])
            kw["event"] = evs if len(evs) > 1 else evs[0]
        if t.get("internal"):
            kw["internal"] = True
        for grp in ("cond", "unless"):
            if t.get(grp):
                items = [guard_fns.get(x, x) for x in t[grp]]
                kw[grp] = items if len(items) > 1 or not style else items[0]
        for grp in ("validators", "before", "on", "after"):
            items = inline(grp, "trans", k)
            if items:
                kw[grp] = items
        return kw

    def touches_ext(d):
        return ext is not None and any(ext in (spec["trans"][k]["src"], spec["trans"][k]["dst"]) for k in d["k"])

    def declare(d, ns):
        ks, how = d["k"], d["how"]
        t = spec["trans"][ks[0]]
        if how in ("kwstr", "kwlist", "kw_eventobj", "kw_placeholder"):
            tl = states[t["src"]].to(states[t["dst"]], **tkw(ks[0], how))
        elif how == "from":
            tl = states[t["dst"]].from_(states[t["src"]], **tkw(ks[0], d.get("ev", "kwstr")))
        elif how == "itself":
            tl = states[t["src"]].to.itself(**tkw(ks[0], d.get("ev", "kwstr")))
        elif how in ("attr", "event_obj"):
            tl = states[t["src"]].to(states[t["dst"]], **tkw(ks[0])) if not d.get("via_from") else states[t["dst"]].from_(states[t["src"]], **tkw(ks[0]))
            for e in t["events"]:
                per_event.setdefault(e, []).append((tl, how))
        elif how == "multi-target":
            tl = states[t["src"]].to(*[states[spec["trans"][k]["dst"]] for k in ks], **tkw(ks[0], d.get("ev", "kwstr")))
        elif how == "multi-source":
            tl = states[t["dst"]].from_(*[states[spec["trans"][k]["src"]] for k in ks], **tkw(ks[0], d.get("ev", "kwstr")))
        elif how == "any":
            tl = states[t["dst"]].from_.any(**tkw(ks[0]))
            ev0 = t["events"][0]
            ns[ev0] = (ns[ev0] | tl) if ev0 in ns else tl
        else:
            raise HarnessError(f"unknown declaration style {how}")
        for k in ks:
            tlists[k] = tl

    def declare_all(items, ns, state_ids):
        per_event.clear()
        placeholders.clear()
        cur_ns[0] = ns
        for d in items:
            declare(d, ns)
        for e, lst in per_event.items():
            tls = [x[0] for x in lst]
            if style.get("assoc") == "right" and len(tls) > 1:
                combined = tls[-1]
                for x in reversed(tls[:-1]):
                    combined = x | combined
            elif style.get("ior"):
                # `go = t1` then `go |= t2` (t1 may also be bound to another event name: augmented assignment must not alter it)
                combined = tls[0]
                for x in tls[1:]:
                    combined = operator.ior(combined, x)
            else:
                combined = tls[0]
                for x in tls[1:]:
                    combined = combined | x
            ns[e] = Event(combined, name=e) if any(x[1] == "event_obj" for x in lst) else combined
        # decorator style (machine methods registered on states / transition lists)
        declared = {k for d in items for k in d["k"]}
        for c in cbs:
            if c["attach"] != "deco":
                continue
            fn = funcs[cbid_of(c)]
            sc = c["scope"]
            if sc[0] == "state":
                if sc[1] in state_ids:
                    getattr(states[sc[1]], c["group"])(fn)
            else:
                for k in sc[1]:
                    if k in declared:
                        getattr(tlists[k], c["group"])(fn)

    def events_first(ns):
        # the id-less Event() attributes are written at the top of the class body, before the states (declaration order of a
        # class body is free)
        if style.get("events_first"):
            first = {e: v for e, v in placeholders.items() if ns.get(e) is v}
            rest = {k: v for k, v in ns.items() if k not in first}
            ns.clear()
            ns.update(first)
            ns.update(rest)

    declare_all([d for d in plan if not touches_ext(d)], ns, {i for i in range(len(states)) if i != ext})
    events_first(ns)

    def __init__(self, Hh=None, *args, **kw):
        if isinstance(Hh, H):
            self.H = Hh
            StateMachine.__init__(self, *args, **kw)
        else:  # standard signature (MachineMixin passes the model first); the recorder is then a class attribute
            StateMachine.__init__(self, Hh, *args, **kw)

    ns["__init__"] = __init__
    ns.update(prov_ns.pop("machine", {}))
    ns["__module__"] = __name__
    ns["__qualname__"] = cname
    kwds = {"strict_states": True} if spec.get("strict") else {}
    base_cls = None
    if ext is not None:
        with warnings.catch_warnings():
            warnings.simplefilter("ignore")  # the base alone may e.g. have no path to a final state: a warning unless strict
            base_cls = types.new_class(cname + "_base", (StateMachine,), {}, lambda d: d.update(ns))
        setattr(HARNESS_MODULE, cname + "_base", base_cls)
        declare_all([d for d in plan if touches_ext(d)], sub_ns, {ext})
        events_first(sub_ns)
        sub_ns.update({"__module__": __name__, "__qualname__": cname})
        cls = types.new_class(cname, (base_cls,), kwds, lambda d: d.update(sub_ns))
    elif style.get("inherit"):
        base = types.new_class(cname + "_base", (StateMachine,), kwds, lambda d: d.update(ns))
        setattr(HARNESS_MODULE, cname + "_base", base)
        cls = types.new_class(cname, (base,), {}, lambda d: d.update({"__module__": __name__, "__qualname__": cname}))
    else:
        cls = types.new_class(cname, (StateMachine,), kwds, lambda d: d.update(ns))
    if register:
        setattr(HARNESS_MODULE, cname, cls)
    pclasses = {}
    for prov, pns in prov_ns.items():
        pname = f"{cname}_{prov}"
        pns = dict(pns, __module__=__name__, __qualname__=pname)
        if prov in spec.get("falsy_providers", ()):
            # e.g. an (empty) recorder object that defines __len__: falsy, but a listener like any other
            pns["__len__"] = lambda a: 0
        if spec.get("eq_listeners") and prov != "model":
            # value-equal listener objects (e.g. frozen dataclasses): equality must not be mistaken for identity
            pns["__eq__"] = lambda a, b: type(a) is type(b)
            pns["__hash__"] = lambda a: 7
        pcls = type(pname, (), pns)
        if register:
            setattr(HARNESS_MODULE, pname, pcls)
        pclasses[prov] = pcls
    for twin, orig in same.items():
        if orig in pclasses:
            pclasses[twin] = pclasses[orig]
    r = Rendered(spec, cls, pclasses, uid)
    r.instance_fns = instance_fns
    r.base_cls = base_cls
    return r


# ------------------------------------------------------------------------------------------ interpreter
class Mismatch(Exception):
    """The observed run is not one the documented semantics allows."""

    def __init__(self, kind, detail, pos=None):
        super().__init__(f"{kind}: {detail}")
        self.kind = kind
        self.detail = detail
        self.pos = pos


class ExpBoom(Exception):
    def __init__(self, cbid, occ):
        self.cbid, self.occ = cbid, occ


class ExpTNA(Exception):
    def __init__(self, event, state_id):
        self.event, self.state_id = event, state_id


_SENT = object()
INITIAL = "<activation>"


class Result:
    """Expected event result: before values then on values, order inside each part free."""

    def __init__(self, before, on):
        self.before, self.on = list(before), list(on)

    def matches(self, obs):
        n = len(self.before) + len(self.on)
        if n == 0:
            return obs is None
        if n == 1:
            return repr(obs) == repr((self.before + self.on)[0])
        if not isinstance(obs, list) or len(obs) != n:
            return False
        nb = len(self.before)
        return sorted(map(repr, obs[:nb])) == sorted(map(repr, self.before)) and sorted(
            map(repr, obs[nb:])
        ) == sorted(map(repr, self.on))

    def __repr__(self):
        return f"Result(before={self.before!r}, on={self.on!r})"


def result_matches(exp, obs):
    if isinstance(exp, Result):
        return exp.matches(obs)
    return exp is None and obs is None


class Interp:
    """Reference semantics, written from docs/actions.md (ordering table), docs/processing_model.md, docs/guards.md,
    docs/async.md and the property statements.  It *parses* the token log of a real run: the order of callbacks inside
    one group (which the docs leave open) is taken from the log, everything else must follow."""

    def __init__(self, spec, *, rtc=True, allow=False, is_async=False, providers=None, start=None, instance_cbs=True):
        self.spec = spec
        self.rtc, self.allow, self.is_async = rtc, allow, is_async
        self.providers = set(providers) if providers is not None else None  # attached providers (None: all)
        self.state = None
        self.start = start
        self.instance_cbs = instance_cbs
        self.queue = deque()
        self.processing = False
        self.occ = Counter()
        self.val = {}
        self.fault = None
        self.guard_fault = None
        self.stragglers = {}
        self.toks = []
        self.pos = 0
        self.init_index = next(i for i, s in enumerate(spec["states"]) if s.get("initial"))
        self.last_failed_transition = None
        self.events_run = 0
        if is_async or True:
            self.queue.append((INITIAL, (), {}))
        self.stats = Counter()
        self.fired = []  # indices of executed transitions, in order

    # ---- helpers over the spec
    def sid(self, i):
        return None if i is None else self.spec["states"][i]["id"]

    def svalue(self, i):
        if i is None:
            return None
        s = self.spec["states"][i]
        return dec(s["value"]) if "value" in s else s["id"]

    def attached(self, d):
        if d.get("instance") and not self.instance_cbs:
            return False
        return self.providers is None or d["prov"] in self.providers or d["prov"] in ("machine", "free", "ext")

    def group_cbs(self, group, k, event, state_i):
        """cbids applicable to transition k (or to state_i for enter/exit) triggered by `event`."""
        out = []
        t = self.spec["trans"][k] if k is not None else None
        for c in self.spec["cbs"]:
            if c["group"] != group or not self.attached(c):
                continue
            sc = c["scope"]
            if group in ("enter", "exit"):
                ok = sc[0] == "generic" or (sc[0] == "state" and sc[1] == state_i)
            else:
                ok = (
                    (sc[0] == "generic" and k is not None)
                    or (sc[0] == "event" and t is not None and sc[1] == event and event in t["events"])
                    or (sc[0] == "trans" and k in sc[1])
                )
            if ok and cbid_of(c) not in out:
                out.append(cbid_of(c))
        return out

    def guard_holds(self, t):
        """Conjunction over cond/unless entries and over all providers of each name."""
        provs = {}
        for g in self.spec.get("guards", []):
            if self.attached(g):
                provs.setdefault(g["name"], []).append(cbid_of(g))
        ok = True
        for name in t.get("cond", []):
            for cid in provs[name]:
                if not self.val.get(cid, False):
                    ok = False
        for name in t.get("unless", []):
            if all(self.val.get(cid, False) for cid in provs[name]):
                ok = False
        return ok

    def guard_cbids(self, t):
        names = set(t.get("cond", [])) | set(t.get("unless", []))
        return {cbid_of(g) for g in self.spec.get("guards", []) if g["name"] in names and self.attached(g)}

    # ---- token stream
    def begin(self, toks):
        self.toks = toks
        self.pos = 0

    def finish(self):
        self.skip_stragglers()
        if self.pos != len(self.toks):
            raise Mismatch("extra-records", f"unexpected record {self.toks[self.pos]!r}", self.pos)

    def skip_stragglers(self):
        """Late records of sibling coroutines of a failed async group are discounted."""
        while self.pos < len(self.toks) and self.stragglers:
            tok = self.toks[self.pos]
            st = self.stragglers.get(tok[1]) if tok[0] != "G" else None
            if st is None:
                return
            if tok[0] == "B":
                if st["started"] or tok[2] != self.occ[tok[1]]:
                    return
                st["started"] = True
                st["occ"] = tok[2]
                self.occ[tok[1]] += 1
            else:
                if not st["started"] or tok[2] != st["occ"]:
                    return
                if tok[0] in ("E", "X"):
                    del self.stragglers[tok[1]]
            self.stats["straggler_records"] += 1
            self.pos += 1

    def peek(self):
        self.skip_stragglers()
        return self.toks[self.pos] if self.pos < len(self.toks) else None

    def advance(self):
        self.pos += 1

    # ---- semantics
    def send(self, ev, args=(), kwargs=None):
        item = (ev, tuple(args), dict(kwargs or {}))
        if not self.rtc:
            return self.trigger(item)
        self.queue.append(item)
        if self.processing:
            return None
        return self.drain()

    def activate(self):
        """Explicit activate_initial_state() / constructor activation."""
        if not self.rtc:
            if self.queue:
                return self.trigger(self.queue.popleft())
            return None
        if self.processing:
            return None
        return self.drain()

    def drain(self):
        self.processing = True
        first = _SENT
        try:
            while self.queue:
                item = self.queue.popleft()
                try:
                    r = self.trigger(item)
                except (ExpBoom, ExpTNA):
                    self.stats["dropped_on_failure"] += len(self.queue)
                    self.queue.clear()
                    raise
                if first is _SENT and item[0] is not INITIAL:
                    first = r
        finally:
            self.processing = False
        return None if first is _SENT else first

    def trigger(self, item):
        ev, args, kwargs = item
        self.events_run += 1
        if ev is INITIAL:  # the interpreter's own activation item; a user event called "__initial__" is an ordinary unknown event
            if self.state is not None:
                raise HarnessError("initial activation with a state already set")
            start = self.init_index if self.start is None else self.start
            self.state = start
            ctx = dict(event="__initial__", state=self.sid(start), source=None, target=self.sid(start), args=args, kw=kwargs)
            self.run_group(self.group_cbs("enter", None, "__initial__", start), ctx, "enter")
            return None
        src = self.state
        if src is None:
            raise HarnessError("event triggered before activation")
        for k, t in enumerate(self.spec["trans"]):
            if t["src"] != src or ev not in t["events"]:
                continue
            ctx = dict(event=ev, state=self.sid(src), source=self.sid(src), target=self.sid(t["dst"]), args=args, kw=kwargs)
            self.last_failed_transition = (k, "pre")
            self.run_group(self.group_cbs("validators", k, ev, None), ctx, "validators")
            gset = self.guard_cbids(t)
            if self.guard_fault in gset and len(gset) == 1 and len(t.get("cond", [])) + len(t.get("unless", [])) == 1:
                # the only guard of this candidate raises when evaluated: the exception aborts the event, state unchanged
                tok = self.peek()
                if tok is None or tok[0] != "G" or tok[1] != self.guard_fault:
                    raise Mismatch("guard-not-evaluated", f"guard {self.guard_fault} of the candidate was not evaluated (next record {tok!r})", self.pos)
                self.advance()
                tok = self.peek()
                if tok is None or tok[0] != "X" or tok[1] != self.guard_fault:
                    raise HarnessError(f"guard {self.guard_fault} should have raised, next record {tok!r}")
                self.advance()
                self.stats["guard_faults"] += 1
                raise ExpBoom(self.guard_fault, -1)
            self.consume_guards(gset)
            if not self.guard_holds(t):
                self.stats["rejected_candidates"] += 1
                continue
            before = self.run_group(self.group_cbs("before", k, ev, None), ctx, "before")
            if not t.get("internal"):
                self.run_group(self.group_cbs("exit", None, ev, src), ctx, "exit")
            on = self.run_group(self.group_cbs("on", k, ev, None), ctx, "on")
            self.state = t["dst"]
            self.last_failed_transition = (k, "post")
            ctx = dict(ctx, state=self.sid(t["dst"]))
            if not t.get("internal"):
                self.run_group(self.group_cbs("enter", None, ev, t["dst"]), ctx, "enter")
            self.run_group(self.group_cbs("after", k, ev, None), ctx, "after")
            self.stats["transitions"] += 1
            self.fired.append(k)
            return Result(before, on)
        if not self.allow:
            raise ExpTNA(ev, self.sid(src))
        return None

    def consume_guards(self, allowed):
        while True:
            tok = self.peek()
            if tok is None or tok[0] != "G":
                return
            if tok[1] not in allowed:
                return  # may belong to the next candidate; a guard nobody may evaluate here is reported by the next phase
            self.advance()

    def check_info(self, cbid, info, ctx, group):
        exp_cur = self.svalue(self.state)
        bad = []
        for key in ("event", "state", "target"):
            if info.get(key) != ctx[key]:
                bad.append((key, ctx[key], info.get(key)))
        if ctx["event"] != "__initial__" and info.get("source") != ctx["source"]:
            bad.append(("source", ctx["source"], info.get("source")))
        if repr(info.get("cur")) != repr(exp_cur):
            bad.append(("current_state_value", exp_cur, info.get("cur")))
        if list(info.get("args", [])) != list(ctx["args"]):
            bad.append(("args", list(ctx["args"]), info.get("args")))
        if info.get("kw", {}) != ctx["kw"]:
            bad.append(("kwargs", ctx["kw"], info.get("kw")))
        if bad:
            raise Mismatch("wrong-injection", f"{cbid} in group {group}: " + "; ".join(f"{k}: expected {e!r} got {o!r}" for k, e, o in bad), self.pos)

    def script_of(self, cbid, occ):
        for c in self.spec["cbs"]:
            if cbid_of(c) == cbid:
                return list(Script(c.get("sends", {})).get(occ, []))
        raise HarnessError(f"unknown callback {cbid}")

    def ret_of(self, cbid):
        for c in self.spec["cbs"]:
            if cbid_of(c) == cbid:
                return dec(c.get("ret"))

    def expects_fault(self, cbid, occ, group):
        return self.fault == (cbid, occ) or (group == "validators" and bool(self.val.get(cbid)))

    def run_group(self, cbids, ctx, group):
        remaining = list(cbids)
        active = {}
        results = []
        while remaining or active:
            tok = self.peek()
            if tok is None:
                raise Mismatch("missing-callbacks", f"log ended in group {group} of event {ctx['event']!r}; still expected {sorted(remaining)} running {sorted(active)}", self.pos)
            kind, cbid = tok[0], tok[1]
            if kind == "G":
                raise Mismatch("guard-in-action-phase", f"guard {cbid} evaluated during group {group}; still expected {sorted(remaining)}", self.pos)
            if kind == "B":
                if cbid not in remaining:
                    raise Mismatch("unexpected-callback", f"{cbid} began during group {group} of event {ctx['event']!r} (state {ctx['state']}); expected one of {sorted(remaining)}, running {sorted(active)}", self.pos)
                if active and not self.is_async:
                    raise Mismatch("overlap", f"{cbid} began while {sorted(active)} still running on the sync engine", self.pos)
                occ = self.occ[cbid]
                if tok[2] != occ:
                    raise HarnessError(f"occurrence counter of {cbid}: interpreter {occ} log {tok[2]}")
                self.occ[cbid] += 1
                self.check_info(cbid, tok[3], ctx, group)
                remaining.remove(cbid)
                active[cbid] = {"occ": occ, "i": 0, "script": self.script_of(cbid, occ), "started": True, "fault": self.expects_fault(cbid, occ, group)}
                self.stats["callbacks"] += 1
                self.advance()
                continue
            st = active.get(cbid)
            if st is None or tok[2] != st["occ"]:
                raise Mismatch("unexpected-record", f"{tok!r} during group {group}; expected begin of {sorted(remaining)} or records of {sorted(active)}", self.pos)
            if kind == "X":
                if not st["fault"]:
                    raise Mismatch("unexpected-raise", f"{cbid}#{st['occ']} raised but no failure was injected there", self.pos)
                self.advance()
                del active[cbid]
                if self.is_async:
                    for c in remaining:
                        self.stragglers[c] = {"started": False, "occ": None}
                    for c, s in active.items():
                        self.stragglers[c] = {"started": True, "occ": s["occ"]}
                self.stats["faults"] += 1
                raise ExpBoom(cbid, st["occ"])
            if st["fault"]:
                raise Mismatch("missing-raise", f"{cbid}#{st['occ']} should have raised", self.pos)
            if kind == "S":
                if tok[3] != st["i"] or st["i"] >= len(st["script"]):
                    raise HarnessError(f"send marker {tok!r} does not follow the script of {cbid}")
                self.advance()
                ev, a, kw = st["script"][st["i"]]
                self.stats["nested_sends"] += 1
                try:
                    exp = ("ok", self.send(ev, a, kw))
                except (ExpBoom, ExpTNA) as e:
                    exp = ("exc", e)
                r = self.peek()
                if r is None or r[0] != "R" or r[1] != cbid or r[2] != st["occ"] or r[3] != st["i"]:
                    raise Mismatch("nested-send-shape", f"after nested send #{st['i']} of {cbid} expected its return record, got {r!r}", self.pos)
                if exp[0] == "ok":
                    if r[4] != "ok":
                        raise Mismatch("nested-send-raised", f"nested send of {ev!r} from {cbid} raised {r[5]} but should have returned {exp[1]!r}", self.pos)
                    if r[5] == "<coroutine>" and self.is_async and exp[1] is None:
                        self.stats["k7_plain_sender_on_async_engine"] += 1
                    elif not result_matches(exp[1], r[5]):
                        raise Mismatch("nested-result", f"nested send of {ev!r} from {cbid} returned {r[5]!r}, expected {exp[1]!r}", self.pos)
                    self.advance()
                    st["i"] += 1
                else:
                    if r[4] != "exc":
                        raise Mismatch("nested-send-returned", f"nested send of {ev!r} from {cbid} returned {r[5]!r} but should have raised {type(exp[1]).__name__}", self.pos)
                    self.advance()
                    del active[cbid]
                    raise exp[1]
                continue
            if kind == "E":
                if st["i"] != len(st["script"]):
                    raise HarnessError(f"{cbid} ended before finishing its script")
                self.advance()
                del active[cbid]
                results.append(self.ret_of(cbid))
                continue
            raise Mismatch("unexpected-record", f"{tok!r} in group {group}", self.pos)
        return results


def exc_matches(exp, obs, Hh=None):
    """Observed exception vs expected one. Returns None or a description of the difference."""
    if isinstance(exp, ExpBoom):
        if isinstance(obs, RuntimeError) and isinstance(obs.__cause__, StopIteration) and hasattr(obs.__cause__, "cbid"):
            # PEP 479: a StopIteration that crosses a generator or coroutine frame on its way out (the library's coroutine wrappers,
            # a generator expression around the guards) arrives as RuntimeError with the original as its cause - the failure
            # did reach the caller
            obs = obs.__cause__
        if (getattr(obs, "cbid", None), getattr(obs, "occ", None)) != (exp.cbid, exp.occ):
            return f"expected the failure injected at {exp.cbid}#{exp.occ}, got {obs!r}"
        if Hh is not None and not any(obs is r for r in Hh.raised):
            return "the exception that escaped is not the object the callback raised"
        return None
    if isinstance(exp, ExpTNA):
        if not isinstance(obs, TransitionNotAllowed):
            return f"expected TransitionNotAllowed({exp.event!r}, {exp.state_id}), got {obs!r}"
        ev = getattr(obs, "event", None)
        st = getattr(obs, "state", None)
        if str(ev) != exp.event or getattr(st, "id", None) != exp.state_id:
            return f"TransitionNotAllowed carries event={str(ev)!r} state={getattr(st, 'id', None)!r}, expected {exp.event!r} / {exp.state_id!r}"
        return None
    return f"unexpected expected-exception {exp!r}"
