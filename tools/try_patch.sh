#!/bin/sh
# tools/try_patch.sh <patch.diff> <ID> [<ID>...]  — run quick checks against a scratch copy of /repo with the patch applied.
# The scratch copy lives outside /repo and /verif and is removed afterwards. Evidence files are not touched (VERIF_NO_EVIDENCE).
PATCH="$(readlink -f "$1")"; shift
SCR="$(mktemp -d /tmp/scratch.XXXXXX)"
rsync -a --exclude .git --exclude docs/images /repo/ "$SCR/"
( cd "$SCR" && patch -p1 -s < "$PATCH" ) || { echo "patch failed"; rm -rf "$SCR"; exit 2; }
for id in "$@"; do
  VERIF_REPO="$SCR" VERIF_NO_EVIDENCE=1 VERIF_REPLAY_DIR="$SCR/replays" ${TIER:+VERIF_TIER=$TIER} /verif/check "$id" 2>&1 | grep -E "VIOLATION|KNOWN-FINDING|HARNESS|tier=|shards\)" | cut -c1-300
done
rm -rf "$SCR"
