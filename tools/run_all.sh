#!/bin/sh
# tools/run_all.sh [tier] [seeds...] — run every registered check at the given seeds; print one line per run (dev aid, no evidence written)
TIER="${1:-quick}"; shift
SEEDS="${*:-1}"
cd "$(dirname "$0")/.." || exit 1
for seed in $SEEDS; do
  for id in C01 C02 C03 C04 C05 C06 C07 C08 C09 C10 C11 C12 C13 C14 C15 C16 C17 C18; do
    out="$(VERIF_SEED=$seed VERIF_NO_EVIDENCE=1 VERIF_REPLAY_DIR=/tmp/replays_runall ./check $id --tier $TIER 2>&1)"; rc=$?
    echo "seed=$seed rc=$rc $(echo "$out" | grep -E 'tier=' | tail -1)"
    [ $rc -ne 0 ] && echo "$out" | grep -E "VIOLATION|shards\)|HARNESS|Error" | cut -c1-400 | head -8
  done
done
