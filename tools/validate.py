#!/usr/bin/env python3
"""python3-vt tools/validate.py — validates MANIFEST.json and evidence/*.json against the schemas (dev aid)."""
import json, glob, jsonschema, os
H = os.path.dirname(os.path.dirname(os.path.abspath(__file__)))
jsonschema.validate(json.load(open(f"{H}/MANIFEST.json")), json.load(open("/root/.vp/MANIFEST.schema.json")))
print("MANIFEST valid")
S = json.load(open("/root/.vp/EVIDENCE.schema.json"))
for f in sorted(glob.glob(f"{H}/evidence/*.json")):
    jsonschema.validate(json.load(open(f)), S); print("valid", os.path.basename(f))
