#!/usr/bin/env python3
"""Summary of seeded/*/meta.json per round: caught by the property's own check / only by another check / missed."""
import json, os, re, collections
H = os.path.dirname(os.path.dirname(os.path.abspath(__file__)))
ROUND = {"a": 1, "b": 1, "c": 2, "d": 2, "e": 3, "f": 3, "g": 4, "h": 4, "i": 5, "j": 5, "k": 6}
rows = collections.defaultdict(lambda: collections.Counter())
missed, cross = [], []
for n in sorted(os.listdir(os.path.join(H, "seeded"))):
    p = os.path.join(H, "seeded", n, "meta.json")
    if not os.path.exists(p):
        continue
    m = json.load(open(p))
    if re.fullmatch(r"C\d\d[a-k]", n):
        grp = f"round {ROUND[n[-1]]}"
    elif n.startswith("revert-"):
        grp = "reverse patches of the fixes"
    else:
        grp = "hand-written"
    det = m.get("detected_by", {})
    own = m.get("breaks_property")
    rows[grp]["total"] += 1
    if not m.get("applies_to_current_repo", True):
        rows[grp]["does not apply"] += 1
        continue
    owns = [own] + m.get("also_relevant", [])
    if any(det.get(o, {}).get("exit") == 1 for o in owns):
        rows[grp]["caught by own check"] += 1
    elif any(d["exit"] == 1 for d in det.values()):
        rows[grp]["caught by another check only"] += 1
        cross.append((n, [k for k, d in det.items() if d["exit"] == 1]))
    else:
        rows[grp]["MISSED"] += 1
        missed.append(n)
print("| group | changes | caught by the property's own check | caught by another property's check only | missed | do not apply |")
print("|---|---|---|---|---|---|")
for g in sorted(rows):
    r = rows[g]
    print(f"| {g} | {r['total']} | {r['caught by own check']} | {r['caught by another check only']} | {r['MISSED']} | {r['does not apply']} |")
print()
print("caught by another check only:", "; ".join(f"{n} ({', '.join(k)})" for n, k in cross))
print("missed:", ", ".join(missed) or "none")
