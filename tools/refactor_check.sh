#!/bin/sh
# tools/refactor_check.sh <patch.diff> — run EVERY quick check against a scratch copy of /repo with a behaviour-preserving
# refactoring applied: any VIOLATION or harness error here is a false alarm of the machinery (dev aid).
PATCH="$(readlink -f "$1")"
SCR="$(mktemp -d /tmp/refac.XXXXXX)"
rsync -a --exclude .git --exclude docs/images /repo/ "$SCR/"
( cd "$SCR" && patch -p1 -s < "$PATCH" ) || { echo "patch failed: $PATCH"; rm -rf "$SCR"; exit 2; }
for id in C01 C02 C03 C04 C05 C06 C07 C08 C09 C10 C11 C12 C13 C14 C15 C16 C17 C18; do
  out="$(VERIF_REPO="$SCR" VERIF_NO_EVIDENCE=1 VERIF_REPLAY_DIR="$SCR/replays" /verif/check $id 2>&1)"; rc=$?
  if [ $rc -ne 0 ]; then echo "FALSE-ALARM? $1 $id rc=$rc"; echo "$out" | grep -E "shards\)|HARNESS|Error|error" | cut -c1-400 | head -6; fi
done
echo "done $1"
rm -rf "$SCR"
