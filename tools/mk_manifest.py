#!/usr/bin/env python3
"""Regenerates MANIFEST.json from the table below (single source of truth for the registered checks)."""
import json, os, importlib, sys
HERE = os.path.dirname(os.path.dirname(os.path.abspath(__file__)))
sys.path.insert(0, HERE)
ALL = [f"C{i:02d}" for i in range(1, 19)]
CHECKS = {
 "C01": dict(cat="exploration", ref="4/C01", tech="property-based testing: Hypothesis-generated machines x configs x histories against a reference interpreter (model-based oracle)",
   text="Generated valid machine definitions, option combinations and event histories with re-drawn guard valuations are run against the real library and against an independent reference interpreter of the documented selection rule; states, exceptions (class, .event, .state), results and the full callback log must agree after every step. Exploration is the right level: the property quantifies over all definitions and histories, which can only be sampled.",
   note="Trusted: the reference interpreter (vcheck/core.py, no library code), Hypothesis. Assumes guards are side-effect free (evaluation of guards of rejected candidates is not asserted). Not covered: same name in cond and unless of one transition (finding K8)."),
}
def main():
    checks = []
    for pid in ALL:
        if pid not in CHECKS: continue
        c = CHECKS[pid]
        checks.append({
            "property_id": pid,
            "quick_cmd": f"./check {pid} --tier quick",
            "thorough_cmd": f"./check {pid} --tier thorough",
            "evidence_file": f"/verif/evidence/{pid}.json",
            "replay_cmd_template": f"./check {pid} --replay {{path}}",
            "engine": "vcheck",
            "level_claimed": {"category": c["cat"], "text": c["text"], "design_ref": f"DESIGN.md section {c['ref']}"},
            "level_note": c["note"],
            "technique": c["tech"],
        })
    na = [{"property_id": pid, "reason": "check not built yet in this session (planned, see DESIGN.md section 4); not claimed until its check is registered"} for pid in ALL if pid not in CHECKS]
    m = {
        "version": 1,
        "setup_cmd": "sh tools/setup.sh",
        "hooks": {"guard": "PYTHON_STATEMACHINE_VERIF", "enable": "no hooks: the checks import /repo's working tree directly (PYTHONPATH) and observe it through its public API only", "baseline_off_cmd": "cd /repo && /venv/bin/python -m pytest -ra -q -p no:cacheprovider --timeout=900 --continue-on-collection-errors", "source_commits": [], "add_only": True},
        "engines": [{"name": "vcheck", "path": "/verif/vcheck", "serves_properties": [c["property_id"] for c in checks], "kind_free_text": "Hypothesis property-based testing / stateful histories / exhaustive small-scope enumeration against reference models, 16-process sharded runner"}],
        "checks": checks,
        "notes": "All checks: ./check <ID> [--tier quick|thorough] [--replay FILE]; seed from VERIF_SEED. Genuine defects found and repaired are listed in known_findings.json ('fixed'), open ones under 'open'.",
        "not_applicable": na,
    }
    with open(os.path.join(HERE, "MANIFEST.json"), "w") as f:
        json.dump(m, f, indent=1)
    return m

    print("MANIFEST ok:", [c["property_id"] for c in checks])
if __name__ == "__main__":
    main()
