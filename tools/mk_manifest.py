#!/usr/bin/env python3
"""Regenerates MANIFEST.json from the table below (single source of truth for the registered checks)."""
import json, os, importlib, sys
HERE = os.path.dirname(os.path.dirname(os.path.abspath(__file__)))
sys.path.insert(0, HERE)
ALL = [f"C{i:02d}" for i in range(1, 19)]
CHECKS = {
 "C01": dict(cat="exploration", ref="4/C01", tech="property-based testing: Hypothesis-generated machines x configs x histories against a reference interpreter (model-based oracle)",
   text="Generated valid machine definitions, option combinations and event histories with re-drawn guard valuations are run against the real library and against an independent reference interpreter of the documented selection rule; states, exceptions (class, .event, .state), results and the full callback log must agree after every step. Exploration is the right level: the property quantifies over all definitions and histories, which can only be sampled.",
   note="Trusted: the reference interpreter (vcheck/core.py, no library code), Hypothesis. Assumes guards are side-effect free (evaluation of guards of rejected candidates is not asserted). Not covered: same name in cond and unless of one transition (finding K8)."),
 "C02": dict(cat="exploration", ref="4/C02", tech="property-based testing: generated machines with callbacks attached in every documented style, callback log parsed by a reference interpreter (model-based oracle)",
   text="Generated machines carry callbacks in every group, attached by naming convention, by name, by function, by decorator, on machine/model/listeners, sync or coroutine; every callback records what it was given and what current state it reads. A reference interpreter parses the recorded log: group order, exactly-once, event scoping of before_/on_/after_<e>, no exit/enter for internal transitions, nothing from rejected candidates, '__initial__' activation, source/target view of state. Sampling is the only way to cover 'all machines and all ways of attaching'.",
   note="Trusted: reference interpreter, Hypothesis. Order inside one group is not asserted (documented as unspecified). Two same-named free callables in one group are outside the valid-definition domain."),
 "C03": dict(cat="exploration", ref="4/C03", tech="property-based testing: generated nested-send scripts and self-triggering chains against a reference interpreter with an explicit FIFO queue; stack-depth metamorphic check",
   text="Every generated callback may carry scripted nested sends with unique payloads (any group, provider, initial activation included); a reference interpreter with an explicit FIFO queue (RTC) or recursion (rtc=False) parses the callback log, checking queueing, FIFO order, no interleaving, None for nested calls, first-event result for the outermost call; chains up to 300 (quick) / 5000 (thorough) self-triggered events must run at constant call-stack depth.",
   note="Trusted: reference interpreter. In machines with coroutine callbacks nested sends are issued by coroutine callbacks only (finding K7). Chain length bounded by the tier."),
 "C04": dict(cat="fault_enumeration", ref="4/C04", tech="fault injection: exhaustive enumeration of every callback invocation of generated scenarios as crash point (plus generated double faults), outcome checked by a reference interpreter",
   text="For each generated scenario a fault-free run lists every callback invocation; each one (cap 60 per scenario) is made to raise on a fresh instance, optionally followed by a second failure later on; the reference interpreter decides the exception that must escape (object identity), the state that must remain (source/target rule) and the exact log of all following events (queued events dropped, machine usable). Crash points of a scenario are enumerated completely, scenarios are sampled.",
   note="Trusted: reference interpreter. Siblings of the failing callback within its group are unconstrained. In async fault runs callbacks with nested sends do not yield. Failures inside the constructor's initial activation are only checked for the escaping exception."),
 "C14": dict(cat="exploration", ref="4/C14", tech="property-based testing: generated return values and callback placements, result compared with the documented rule computed by a reference interpreter",
   text="Generated machines with 0-4 before/on callbacks per transition in all attach styles returning arbitrary values, decoy return values in every other group, silent transitions and queued events; after every event the returned value must be None / the single value / the list of before then on values as computed by the reference interpreter from the parsed callback log.",
   note="Trusted: reference interpreter. Order inside the before part and inside the on part is not asserted."),
 "C05": dict(cat="exploration", ref="4/C05", tech="differential property-based testing: coroutine twin vs plain-function twin vs reference interpreter over generated async masks, yield counts and drivers",
   text="The scenarios of C01-C04 are rendered twice, once with plain functions and once with a generated subset of callbacks/guards/validators as coroutines that really yield to the loop, and driven from sync code without a loop, inside asyncio.run, and from fresh threads in turn. Both twins must satisfy the reference interpreter (phases, arguments, results, exceptions, states, phase barrier, deferred activation before the first event) and, where the unspecified in-group order cannot matter, agree step by step; no coroutine may be left un-awaited.",
   note="Trusted: reference interpreter. Coroutine guards inside boolean expressions / with several providers are excluded (finding K1); nested sends only from coroutine callbacks in mixed machines (K7)."),
 "C10": dict(cat="exploration", ref="4/C10", tech="model-based property testing over generated histories of events and external writes, with generated state-value types and model shapes; invariants after every step",
   text="Generated machines with state values of every kind (strings incl. '', ints incl. 0/negatives, Enum/IntEnum members, tuples, mixed hashables), models of every shape (default, plain, class-level default, property-backed, falsy list subclass, __len__ -> 0, __bool__ -> False), any state_field, any start_value, and histories interleaving events, external writes of valid and unmapped values and re-construction over the same model. After every step the model field, current_state, current_state_value, is_active (exactly one) and model identity are checked against a reference interpreter that always leaves from the stored value.",
   note="Trusted: reference interpreter. Values are pairwise unequal and hashable by construction."),
 "C11": dict(cat="exploration", ref="4/C11", tech="model-based property testing: histories of construct / activate / send / re-construct over a persistent model, reference interpreter decides which callbacks may run",
   text="A persistent model outlives generated sequences of machine constructions (re-drawn options, also brand-new models with another start_value), explicit activations (any number), and events, for sync and coroutine machines. The reference interpreter requires exactly one initial enter phase under '__initial__' for a model without state (deferred to the first event for coroutine machines), zero callbacks and an untouched stored value for a model with a state, and no-op re-activation.",
   note="Trusted: reference interpreter. The return value of activate_initial_state() is ignored."),
 "C13": dict(cat="exploration", ref="4/C13", tech="model-based property testing over generated mixes of calling styles plus name fuzzing over dir(machine) with a before/after snapshot oracle",
   text="Every step of a generated history is triggered through a drawn style (send, event method, item of events, item of allowed_events, trigger bound with bind_events_to, MachineMixin bound methods); all must give the reference interpreter's outcome; allowed_events/events are compared with the interpreter's lists after every step (once each, declaration order). Every attribute name of the machine and generated text is sent as an event name: TransitionNotAllowed/None and a byte-identical observable snapshot are required.",
   note="Trusted: reference interpreter. MachineMixin needs django settings configured by the harness; the style is skipped (and counted) if django is missing."),
 "C12": dict(cat="exploration", ref="4/C12", tech="model-based property testing over generated distributions of callback names on machine/model/constructor/late listeners with attach, re-attach and sibling-instance operations",
   text="Callback names (convention, explicit names, validators, guards) are distributed over machine, model, constructor listeners and late listeners (also two listeners of one class, value-equal listener objects, coroutine methods); histories interleave events with add_listener of new and already attached objects and with a sibling instance that has its own listeners. The reference interpreter, given the current provider set, fixes which callbacks run in which phase with which arguments (exactly once each) and that guards are a conjunction over providers; recorders of different instances must never receive each other's records.",
   note="Trusted: reference interpreter. Names used in unless and coroutine guards have a single provider. Evaluation counts of guards are not asserted."),
 "C17": dict(cat="exploration", ref="4/C17", tech="model-based property testing with forked reference interpreter: generated histories containing deepcopy/pickle clone operations followed by diverging suffixes; aliasing checks",
   text="At generated points of generated histories (also before a coroutine machine is activated) the machine is deep-copied or pickled and unpickled; the reference interpreter is forked and original and clones receive different suffixes. Each must follow its own fork in states, results, exceptions and complete callback logs (so model, listeners and options were carried over), and models, listeners, recorders and a custom mutable attribute must be equal but unshared.",
   note="Trusted: reference interpreter; generated classes are registered as module attributes so pickle can import them."),
 "C09": dict(cat="exploration", ref="4/C09", tech="exhaustive small-scope enumeration (all definitions over <=3 states; <=4 in thorough) plus Hypothesis-generated definitions, against an independent fixpoint oracle",
   text="Every definition over 1..3 states - every edge set, initial-flag set, final-flag set, strict on/off: 66 064 classes - is created and its acceptance / InvalidDefinition / warning outcome compared with an independent set-based closure computation (n = 4 with one initial state, 8.4 M classes, in the thorough tier); Hypothesis adds n = 5, edge multiplicities, multi-event names, from_.any(), internal (non-)self transitions, shuffled declaration order and state-less / event-less classes. coverage.exhaustive is true for the enumerated part.",
   note="Trusted: the 40-line oracle (closure by fixpoint iteration). Beyond n = 4 definitions are sampled. Warning texts are matched by the two documented phrases."),
 "C18": dict(cat="exploration", ref="4/C18", tech="property-based testing with a structural oracle: the pydot object of generated classes and instances (in every state reached by a generated history) is compared with the abstract machine",
   text="For generated machines the pydot.Dot of the class and of the instance in every state reached by a generated history is read back structurally: node set, the single initial pseudo-edge, the multiset of (source, target, events, guards) edges of external transitions, internal transitions listed inside their state and never as edges, double border iff final, exactly the current state (per sm.current_state) highlighted on instances and none on classes, and a pydot parse round-trip of to_string() (Graphviz rendering in the thorough tier).",
   note="Trusted: pydot's object model. State ids avoid 'i' (finding K5). Fonts, colours other than the active fill, and label layout are not asserted."),
 "C08": dict(cat="exploration", ref="4/C08", tech="grammar-based property testing with a differential oracle: generated expression ASTs printed in the library dialect vs Python's eval of the canonical text, plus a negative family of malformed/unsupported strings",
   text="Expression ASTs drawn from the documented grammar are printed in the library dialect (random operator spelling, optional whitespace removed where Python allows, redundant parentheses, chained comparisons, adversarial names) and as canonical Python; names are provided as methods, properties or attributes on machine/model/listener; 1-3 cond/unless entries per transition, declared with to(), from_() or from_.any(). For >=5 valuations each the transition must fire iff Python's eval says so, and the observable name-read sequence must equal Python's short-circuit order. Malformed, unsupported and unknown-name strings must raise InvalidDefinition at instantiation and nothing else, never at send time.",
   note="Trusted: CPython's eval. Names under comparisons have one provider; coroutine operands (K1), operator spellings inside string literals (K4) and duplicate-equivalent entries (K8) are excluded and probed separately."),
 "C07": dict(cat="exploration", ref="4/C07", tech="property-based testing against an independent argument binder: generated signatures (as real source text) x callback kinds x call shapes, observed locals() vs expected binding; colliding-name families for cache independence",
   text="Signatures covering every ordering of positional-only, positional-or-keyword, defaulted, *args, keyword-only and **kwargs parameters with names drawn from the built-ins and user names are compiled from source as methods (machine/model/listener), free functions, partials, functools.wraps-decorated methods and coroutines, attached to every callback group and called with 0-4 positional arguments and keyword sets containing reserved names with decoy values, directly and forwarded by a parent callback. The locals() each callback records are compared with an independent 40-line binder (built-ins by identity). Callables sharing __name__/__qualname__/parameter names across unrelated classes are used alternately to show the binding depends on the callable's own signature only.",
   note="Trusted: the oracle binder (pairing rule pinned by tests/test_signature.py). The deliberately raised TypeError for a keyword matching an unfilled positional-only parameter is outside the generated domain."),
 "C15": dict(cat="exploration", ref="4/C15", tech="metamorphic / differential property testing: one generated abstract machine rendered in 2-4 generated declaration plans; every rendering vs the reference interpreter and vs each other",
   text="An abstract machine is rendered through independently drawn declaration plans (to / from_ / to.itself / multi-target / multi-source / from_.any / class-attribute events combined with | in either association / explicit Event objects / event= as string, list or Event; states as attributes, States({...}) or States.from_enum; base class + empty subclass). Every rendering must follow the reference interpreter on the same history and valuations, and all must expose identical states, event sets and per-state allowed-event sets.",
   note="Trusted: reference interpreter. from_.any() only where it cannot change candidate order; exception messages not compared."),
}
def main():
    checks = []
    for pid in ALL:
        if pid not in CHECKS: continue
        c = CHECKS[pid]
        checks.append({
            "property_id": pid,
            "quick_cmd": f"./check {pid} --tier quick",
            "thorough_cmd": f"./check {pid} --tier thorough",
            "evidence_file": f"/verif/evidence/{pid}.json",
            "replay_cmd_template": f"./check {pid} --replay {{path}}",
            "engine": "vcheck",
            "level_claimed": {"category": c["cat"], "text": c["text"], "design_ref": f"DESIGN.md section {c['ref']}"},
            "level_note": c["note"],
            "technique": c["tech"],
        })
    na = [{"property_id": pid, "reason": "check not built yet in this session (planned, see DESIGN.md section 4); not claimed until its check is registered"} for pid in ALL if pid not in CHECKS]
    m = {
        "version": 1,
        "setup_cmd": "sh tools/setup.sh",
        "hooks": {"guard": "PYTHON_STATEMACHINE_VERIF", "enable": "no hooks: the checks import /repo's working tree directly (PYTHONPATH) and observe it through its public API only", "baseline_off_cmd": "cd /repo && /venv/bin/python -m pytest -ra -q -p no:cacheprovider --timeout=900 --continue-on-collection-errors", "source_commits": [], "add_only": True},
        "engines": [{"name": "vcheck", "path": "/verif/vcheck", "serves_properties": [c["property_id"] for c in checks], "kind_free_text": "Hypothesis property-based testing / stateful histories / exhaustive small-scope enumeration against reference models, 16-process sharded runner"}],
        "checks": checks,
        "notes": "All checks: ./check <ID> [--tier quick|thorough] [--replay FILE]; seed from VERIF_SEED. Genuine defects found and repaired are listed in known_findings.json ('fixed'), open ones under 'open'.",
        "not_applicable": na,
    }
    with open(os.path.join(HERE, "MANIFEST.json"), "w") as f:
        json.dump(m, f, indent=1)
    return m

    print("MANIFEST ok:", [c["property_id"] for c in checks])
if __name__ == "__main__":
    main()
