#!/bin/sh
# Offline setup: the checks need only /venv (python 3.12 + the repository's deps) and hypothesis.
cd "$(dirname "$0")/.." || exit 1
/venv/bin/python -c "import hypothesis" 2>/dev/null || /venv/bin/pip install --no-index --find-links /opt/veriftools/wheels hypothesis
/venv/bin/python -c "import hypothesis, statemachine; print('hypothesis', hypothesis.__version__)"
# optional coverage-guided sub-engine of the thorough tiers of C07/C08
PYTHONPATH=.deps /venv/bin/python -c "import atheris" 2>/dev/null || /venv/bin/pip install -q --no-index --find-links /opt/veriftools/wheels --target .deps atheris || echo "atheris not installed: its sub-engine will be skipped"
mkdir -p evidence replays
