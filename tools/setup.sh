#!/bin/sh
# Offline setup: the checks need only /venv (python 3.12 + the repository's deps) and hypothesis.
cd "$(dirname "$0")/.." || exit 1
/venv/bin/python -c "import hypothesis" 2>/dev/null || /venv/bin/pip install --no-index --find-links /opt/veriftools/wheels hypothesis
/venv/bin/python -c "import hypothesis, statemachine; print('hypothesis', hypothesis.__version__)"
mkdir -p evidence replays
