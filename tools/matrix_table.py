#!/usr/bin/env python3
"""Prints the detection matrix (markdown) from seeded/*/meta.json."""
import json, os, sys
H = os.path.dirname(os.path.dirname(os.path.abspath(__file__)))
rows = []
for n in sorted(os.listdir(os.path.join(H, "seeded"))):
    p = os.path.join(H, "seeded", n, "meta.json")
    if not os.path.exists(p):
        continue
    m = json.load(open(p))
    det = m.get("detected_by", {})
    caught = [f"{pid} ({', '.join(v.split(':')[1].split(' ')[0] for v in d['violations'][:3])})" for pid, d in det.items() if d["exit"] == 1]
    missed = [pid for pid, d in det.items() if d["exit"] == 0]
    err = [pid for pid, d in det.items() if d["exit"] not in (0, 1)]
    status = "caught" if caught else ("does not apply" if not m.get("applies_to_current_repo", True) else "MISSED")
    rows.append((n, m.get("breaks_property"), status, "; ".join(caught), ", ".join(missed), ", ".join(err)))
print("| change | property | result | caught by (signatures) | quiet checks that were also run |")
print("|---|---|---|---|---|")
for r in rows:
    print(f"| {r[0]} | {r[1]} | {r[2]} | {r[3]} | {r[4]}{(' ; harness error: ' + r[5]) if r[5] else ''} |")
print()
print("caught:", sum(1 for r in rows if r[2] == "caught"), "missed:", sum(1 for r in rows if r[2] == "MISSED"), "n/a:", sum(1 for r in rows if r[2] == "does not apply"), file=sys.stderr)
