#!/usr/bin/env python3
"""tools/matrix.py [names...] — run the registered quick checks against every stored seeded change (scratch copy of /repo
with the patch applied, removed afterwards) and write seeded/<name>/meta.json with what was run and which checks caught it."""
import json, os, re, subprocess, sys, tempfile, shutil, time
H = os.path.dirname(os.path.dirname(os.path.abspath(__file__)))
SEEDED = os.path.join(H, "seeded")
RELATED = {  # checks run in addition to the property's own one
    "C03a": ["C14"], "C14a": ["C03"], "C04b": ["C03"], "C08b": ["C15"], "C15a": ["C08"], "C16a": ["C07"], "C10b": ["C11"], "C11b": ["C10"],
    "C13b": ["C15"], "C15b": ["C13"], "C05b": ["C02", "C04"], "C02a": ["C05"], "C01a": ["C05", "C08"], "C17a": ["C12"],
    "C02e": ["C12"], "C02f": ["C12"], "C03f": ["C17"], "C11f": ["C17"], "C12f": ["C08", "C01"], "C10e": ["C16"], "C03e": ["C05"], "C01f": ["C02"], "C17f": ["C10"],
    "C13g": ["C15", "C16"], "C13h": ["C17"], "C05g": ["C14", "C03"], "C05h": ["C01", "C13", "C11"], "C06g": ["C03"], "C06h": ["C03", "C01"],
    "C03g": ["C05", "C06"], "C03h": ["C12"], "C17g": ["C12", "C16"], "C17h": ["C01"], "C01g": ["C13"], "C08h": ["C12"], "C10h": ["C11", "C16"],
    "C16g": ["C17", "C12"], "C16h": ["C17", "C13"], "C04g": ["C05"], "C04h": ["C11", "C05"], "C15h": ["C16"], "C12g": ["C17", "C16"], "C12h": ["C10"],
    "C09i": ["C15", "C10"], "C09j": ["C15", "C13"], "C05i": ["C17"], "C05j": ["C11"], "C07j": ["C02"], "C03i": ["C11", "C04"], "C03j": ["C11", "C05"],
    "C13i": ["C15"], "C13j": ["C15"], "C08j": ["C12"], "C10i": ["C17"], "C10j": ["C16"], "C06i": ["C03"], "C06j": ["C03", "C11"], "C17j": ["C10"],
    "C12i": ["C05", "C02"], "C12j": ["C02"], "C15i": ["C13"], "C15j": ["C13"], "C16i": ["C12"], "C16j": ["C10", "C11"], "C14i": ["C12"], "C14j": ["C05", "C02"],
    "C11i": ["C10"], "C11j": ["C05"], "C01i": ["C15", "C13"], "C01j": ["C04", "C03"], "C04i": ["C01"], "C04j": ["C05", "C14"], "C02i": ["C01", "C15"], "C02j": ["C12", "C05"],
    "C02g": ["C01", "C15"], "C02h": ["C12", "C05"], "C07g": ["C02"], "C11g": ["C03", "C05"], "C14g": ["C12", "C08"], "C14h": ["C01", "C03"],
    "C01k": ["C10"], "C02k": ["C15", "C13"], "C03k": ["C16", "C11"], "C04k": ["C03"], "C05k": ["C12"], "C06k": ["C03", "C04"], "C07k": ["C02", "C01"], "C09k": ["C15"],
    "C10k": ["C17"], "C11k": ["C17", "C05"], "C12k": ["C08"], "C13k": ["C03", "C04"], "C14k": ["C02", "C15"], "C15k": ["C08"], "C16k": ["C09"], "C17k": ["C12", "C08"],
}
def props_of(name):
    p = os.path.join(SEEDED, name, "props.txt")
    if os.path.exists(p):
        return open(p).read().strip().split(",")
    return [name[:3]]
def run(name):
    d = os.path.join(SEEDED, name)
    patch = os.path.join(d, "patch.diff")
    scr = tempfile.mkdtemp(prefix="matrix.", dir="/tmp")
    try:
        subprocess.run(["rsync", "-a", "--exclude", ".git", "--exclude", "docs/images", "/repo/", scr + "/"], check=True)
        cp = subprocess.run(["patch", "-p1", "-s", "-i", patch], cwd=scr, capture_output=True, text=True)
        meta_path = os.path.join(d, "meta.json")
        meta = json.load(open(meta_path)) if os.path.exists(meta_path) else {}
        meta.update({"name": name, "breaks_property": props_of(name)[0], "also_relevant": props_of(name)[1:]})
        notes = os.path.join(d, "notes.md")
        if os.path.exists(notes):
            meta["needs_to_manifest"] = " ".join(open(notes).read().split())[:1200]
        elif name.startswith("revert-"):
            meta["needs_to_manifest"] = "reverse of the fix commit for finding %s (see known_findings.json)" % name.split("-")[1]
        v = os.path.join(d, "verify.txt")
        if os.path.exists(v):
            meta["confirmed"] = open(v).read().strip()
        if cp.returncode != 0:
            meta["applies_to_current_repo"] = False
            meta["detected_by"] = {}
            meta["note"] = "patch no longer applies to /repo HEAD (a later fix: commit changed the same lines)"
            json.dump(meta, open(meta_path, "w"), indent=1)
            print(name, "PATCH DOES NOT APPLY")
            return
        meta["applies_to_current_repo"] = True
        det = {}
        checks = props_of(name) + RELATED.get(name, [])
        for pid in checks:
            env = dict(os.environ, VERIF_REPO=scr, VERIF_NO_EVIDENCE="1", VERIF_REPLAY_DIR=os.path.join(scr, "replays"), VERIF_SEED=os.environ.get("VERIF_SEED", "1"))
            t0 = time.time()
            out = subprocess.run([os.path.join(H, "check"), pid, "--tier", "quick"], env=env, capture_output=True, text=True)
            sigs = re.findall(r"^(C\d\d:[^ ]+) \(in (\d+)/(\d+) shards\)", out.stdout, re.M)
            det[pid] = {"exit": out.returncode, "violations": [f"{s} ({a}/{b} shards)" for s, a, b in sigs], "wall_s": round(time.time() - t0, 1)}
            print(name, pid, "rc", out.returncode, [s for s, a, b in sigs][:4], flush=True)
        meta["detected_by"] = det
        meta["ran"] = "tools/matrix.py: quick tier of %s with VERIF_REPO=<scratch copy + patch>, VERIF_SEED=%s, /repo HEAD %s" % (checks, os.environ.get("VERIF_SEED", "1"), subprocess.check_output(["git", "-C", "/repo", "rev-parse", "--short", "HEAD"], text=True).strip())
        json.dump(meta, open(meta_path, "w"), indent=1)
    finally:
        shutil.rmtree(scr, ignore_errors=True)
if __name__ == "__main__":
    names = sys.argv[1:] or sorted(n for n in os.listdir(SEEDED) if os.path.isdir(os.path.join(SEEDED, n)))
    for n in names:
        run(n)
