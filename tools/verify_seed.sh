#!/bin/sh
# tools/verify_seed.sh <dir with patch.diff demo.py notes.md> <name>
# Confirms in a scratch copy: patch applies, pinned suite still passes with it, demo fails with it and passes without it.
# On success stores /verif/seeded/<name>/{patch.diff,demo.py,notes.md,verify.txt}.
SRC="$1"; NAME="$2"
SCR="$(mktemp -d /tmp/vseed.XXXXXX)"
rsync -a --exclude .git /repo/ "$SCR/"
cd "$SCR" || exit 2
/venv/bin/python "$SRC/demo.py" "$SCR" >/dev/null 2>&1; CLEAN=$?
patch -p1 -s < "$SRC/patch.diff" || { echo "$NAME: patch failed"; rm -rf "$SCR"; exit 2; }
SUITE="$(/venv/bin/python -m pytest -q -p no:cacheprovider --timeout=900 2>&1 | grep -E 'passed|failed|error' | tail -1)"
/venv/bin/python "$SRC/demo.py" "$SCR" >/dev/null 2>&1; MUT=$?
echo "$NAME: suite=[$SUITE] demo_clean_exit=$CLEAN demo_mutant_exit=$MUT"
case "$SUITE" in *"348 passed, 9 xfailed"*) OKS=1;; *) OKS=0;; esac
if [ "$OKS" = 1 ] && [ "$CLEAN" = 0 ] && [ "$MUT" != 0 ]; then
  mkdir -p "/verif/seeded/$NAME"
  cp "$SRC/patch.diff" "$SRC/demo.py" "/verif/seeded/$NAME/"
  [ -f "$SRC/notes.md" ] && cp "$SRC/notes.md" "/verif/seeded/$NAME/"
  echo "suite with patch: $SUITE; demo exit on clean tree: $CLEAN; demo exit with patch: $MUT; verified in a scratch copy of /repo ($(git -C /repo rev-parse --short HEAD))" > "/verif/seeded/$NAME/verify.txt"
  echo "$NAME: KEPT"
else
  echo "$NAME: REJECTED"
fi
rm -rf "$SCR"
